package harness

import (
	"bufio"
	"encoding/json"
	"fmt"
	"io"
	"os"
	"os/exec"
	"strings"
	"sync"
	"testing"
	"time"
)

type Violation struct {
	Prop   string        `json:"prop"`
	Sig    string        `json:"sig"`
	Msg    string        `json:"msg"`
	Scn    string        `json:"scn"`
	Chosen []string      `json:"chosen"`
	At     time.Duration `json:"at"`
}

// Job: explore the subtree below Prefix with at most Budget further deviations.
type Job struct {
	ID     int       `json:"id"`
	Prop   string    `json:"prop"`
	Scn    *Scenario `json:"scn"`
	Prefix []string  `json:"prefix"`
	Budget int       `json:"budget"`
	Split  bool      `json:"split"`          // run Prefix only and return the children as new jobs
	Replay bool      `json:"replay"`         // run Prefix only, return trace hash + violations
	Skip   []string  `json:"skip,omitempty"` // prefixes (joined) known to kill the worker
	Trace  bool      `json:"trace,omitempty"`
	Tag    string    `json:"tag,omitempty"`
	TagK   int       `json:"tagk,omitempty"`
}

type JobResult struct {
	ID          int         `json:"id"`
	Execs       int         `json:"execs"`
	Steps       int         `json:"steps"`
	Divergences int         `json:"divergences"`
	Hashes      []uint64    `json:"hashes,omitempty"`     // execution hashes (distinct within job)
	NonTrivial  []uint64    `json:"nontrivial,omitempty"` // hashes of non-trivial executions
	FPs         []uint64    `json:"fps,omitempty"`        // new state fingerprints
	Viol        []Violation `json:"viol,omitempty"`
	Children    [][]string  `json:"children,omitempty"`
	Stuck       int         `json:"stuck"` // executions that left stuck goroutines (worker restarts)
	Sample      *Sample     `json:"sample,omitempty"`
	Res         *Result     `json:"res,omitempty"` // Replay+Trace
	MaxPoints   int         `json:"max_points"`
	Tainted     bool        `json:"tainted,omitempty"`
}

type Sample struct {
	Scn     string   `json:"scenario"`
	Chosen  []string `json:"choices"`
	Summary string   `json:"summary"`
}

func joinPrefix(p []string) string { return strings.Join(p, "\x00") }

// ---------------------------------------------------------------- worker side

type workerState struct {
	t       *testing.T
	job     *Job
	res     *JobResult
	skip    map[string]bool
	hashes  map[uint64]bool
	nontriv map[uint64]bool
	fps     map[uint64]bool // per worker lifetime
	newFPs  []uint64
	cur     *os.File
	tainted bool
	leaks   int
	violSig map[string]bool
}

func (ws *workerState) announce(prefix []string) {
	if ws.cur == nil {
		return
	}
	b, _ := json.Marshal(prefix)
	b = append(b, '\n')
	ws.cur.Truncate(0)
	ws.cur.WriteAt(b, 0)
}

func (ws *workerState) runOne(prefix []string) *Result {
	ws.announce(prefix)
	r := RunOnce(ws.t, ws.job.Scn, prefix, ws.job.Trace)
	ws.res.Execs++
	ws.res.Steps += r.Steps
	if len(r.Alts) > ws.res.MaxPoints {
		ws.res.MaxPoints = len(r.Alts)
	}
	if r.Diverged != "" {
		ws.res.Divergences++
		if os.Getenv("MCX_DEBUG") != "" {
			if f, err := os.OpenFile(os.Getenv("MCX_DEBUG")+".diverged", os.O_APPEND|os.O_CREATE|os.O_WRONLY, 0o644); err == nil {
				b, _ := json.Marshal(prefix)
				fmt.Fprintf(f, "DIVERGED %s prefix=%s: %s\n", ws.job.Scn.Name, b, r.Diverged)
				f.Close()
			}
		}
		return r
	}
	if !ws.hashes[r.Hash] {
		ws.hashes[r.Hash] = true
		ws.res.Hashes = append(ws.res.Hashes, r.Hash)
	}
	for _, fp := range r.FPs {
		if !ws.fps[fp] {
			ws.fps[fp] = true
			ws.newFPs = append(ws.newFPs, fp)
		}
	}
	viols, nontrivial := Evaluate(ws.job.Prop, r)
	if nontrivial && !ws.nontriv[r.Hash] {
		ws.nontriv[r.Hash] = true
		ws.res.NonTrivial = append(ws.res.NonTrivial, r.Hash)
	}
	for _, v := range viols {
		v.Scn = ws.job.Scn.Name
		v.Chosen = r.Chosen
		if ws.job.Replay || !ws.violSig[v.Sig] {
			// keep the first (fewest deviations, DFS order) witness per signature and job
			ws.violSig[v.Sig] = true
			ws.res.Viol = append(ws.res.Viol, v)
		}
	}
	if ws.res.Sample == nil && nontrivial {
		ws.res.Sample = &Sample{Scn: ws.job.Scn.Name, Chosen: r.Chosen, Summary: Summarize(r)}
	}
	if len(r.Stuck) > 0 {
		ws.res.Stuck++
		ws.leaks += len(r.Stuck)
	}
	return r
}

func (ws *workerState) subtree(prefix []string, budget int) {
	if ws.skip[joinPrefix(prefix)] {
		return
	}
	r := ws.runOne(prefix)
	if budget <= 0 || r.Diverged != "" {
		return
	}
	for i := len(prefix); i < len(r.Alts); i++ {
		for _, alt := range r.Alts[i][1:] {
			child := make([]string, 0, i+1)
			child = append(child, r.Chosen[:i]...)
			child = append(child, alt)
			ws.subtree(child, budget-1)
		}
	}
}

// WorkerMain: read jobs (JSON lines) from stdin, write results to stdout.
func WorkerMain(t *testing.T, curFile string) {
	in := bufio.NewReaderSize(os.Stdin, 1<<20)
	out := bufio.NewWriterSize(os.Stdout, 1<<20)
	ws := &workerState{t: t, fps: map[uint64]bool{}}
	if curFile != "" {
		f, err := os.OpenFile(curFile, os.O_RDWR|os.O_CREATE|os.O_TRUNC, 0o644)
		if err == nil {
			ws.cur = f
		}
	}
	for {
		line, err := in.ReadBytes('\n')
		if len(line) > 0 {
			var job Job
			if e := json.Unmarshal(line, &job); e != nil {
				fmt.Fprintf(os.Stderr, "worker: bad job: %v\n", e)
				os.Exit(4)
			}
			ws.job = &job
			ws.res = &JobResult{ID: job.ID}
			ws.skip = map[string]bool{}
			for _, s := range job.Skip {
				ws.skip[s] = true
			}
			ws.hashes, ws.nontriv, ws.newFPs, ws.violSig = map[uint64]bool{}, map[uint64]bool{}, nil, map[string]bool{}
			switch {
			case job.Replay:
				r := ws.runOne(job.Prefix)
				if job.Trace {
					ws.res.Res = r
				}
			case job.Split:
				if !ws.skip[joinPrefix(job.Prefix)] {
					r := ws.runOne(job.Prefix)
					if r.Diverged == "" && job.Budget > 0 {
						for i := len(job.Prefix); i < len(r.Alts); i++ {
							for _, alt := range r.Alts[i][1:] {
								child := append(append([]string{}, r.Chosen[:i]...), alt)
								ws.res.Children = append(ws.res.Children, child)
							}
						}
					}
				}
			default:
				ws.subtree(job.Prefix, job.Budget)
			}
			ws.res.FPs = ws.newFPs
			ws.tainted = ws.leaks > 2000
			ws.res.Tainted = ws.tainted
			b, _ := json.Marshal(ws.res)
			out.Write(b)
			out.WriteByte('\n')
			out.Flush()
			if ws.tainted {
				// stuck goroutines cannot be removed from the process: start afresh
				os.Exit(0)
			}
		}
		if err != nil {
			fmt.Fprintf(os.Stderr, "worker: stdin closed (%v), leaving\n", err)
			return
		}
	}
}

// ---------------------------------------------------------------- parent side

type Pool struct {
	exe      string
	n        int
	dir      string
	mu       sync.Mutex
	queue    []*Job
	cond     *sync.Cond
	active   int
	nextID   int
	onDone   func(j *Job, r *JobResult)
	onCrash  func(j *Job, prefix []string, stderr string)
	stop     bool
	deadline time.Time
	Expired  bool
	Crashes  int
	Restarts int
}

func NewPool(exe string, n int, dir string) *Pool {
	p := &Pool{exe: exe, n: n, dir: dir}
	p.cond = sync.NewCond(&p.mu)
	return p
}

func (p *Pool) Submit(j *Job) {
	p.mu.Lock()
	p.nextID++
	j.ID = p.nextID
	p.queue = append(p.queue, j)
	p.mu.Unlock()
	p.cond.Broadcast()
}

type tailBuf struct {
	mu sync.Mutex
	b  []byte
}

func (t *tailBuf) Write(p []byte) (int, error) {
	t.mu.Lock()
	t.b = append(t.b, p...)
	if len(t.b) > 1<<16 {
		t.b = t.b[len(t.b)-(1<<16):]
	}
	t.mu.Unlock()
	return len(p), nil
}
func (t *tailBuf) String() string { t.mu.Lock(); defer t.mu.Unlock(); return string(t.b) }

type proc struct {
	cmd    *exec.Cmd
	stdin  io.WriteCloser
	stdout *bufio.Reader
	stderr *tailBuf
	cur    string
}

func (p *Pool) spawn(k int) (*proc, error) {
	cur := fmt.Sprintf("%s/worker-%d.cur", p.dir, k)
	cmd := exec.Command(p.exe, "-test.run", "^TestWorker$", "-test.timeout", "0", "-mcx.worker", "-mcx.cur", cur)
	cmd.Env = append(os.Environ(), "GOMAXPROCS=1", "GOTRACEBACK=all")
	stdin, err := cmd.StdinPipe()
	if err != nil {
		return nil, err
	}
	so, err := cmd.StdoutPipe()
	if err != nil {
		return nil, err
	}
	tb := &tailBuf{}
	cmd.Stderr = tb
	if err := cmd.Start(); err != nil {
		return nil, err
	}
	return &proc{cmd: cmd, stdin: stdin, stdout: bufio.NewReaderSize(so, 1<<20), stderr: tb, cur: cur}, nil
}

// Run processes the queue until it is empty and all workers are idle (jobs may
// submit further jobs from onDone), or the deadline passes.
func (p *Pool) Run() {
	var wg sync.WaitGroup
	for k := 0; k < p.n; k++ {
		wg.Add(1)
		go func(k int) {
			defer wg.Done()
			var pr *proc
			defer func() {
				if pr != nil {
					pr.stdin.Close()
					pr.cmd.Wait()
				}
			}()
			for {
				p.mu.Lock()
				for len(p.queue) == 0 && p.active > 0 && !p.stop {
					p.cond.Wait()
				}
				if p.stop || len(p.queue) == 0 {
					p.mu.Unlock()
					p.cond.Broadcast()
					return
				}
				if !p.deadline.IsZero() && time.Now().After(p.deadline) {
					p.Expired = true
					p.queue = nil
					p.mu.Unlock()
					p.cond.Broadcast()
					return
				}
				j := p.queue[len(p.queue)-1]
				p.queue = p.queue[:len(p.queue)-1]
				p.active++
				p.mu.Unlock()

				for attempt := 0; ; attempt++ {
					if pr == nil {
						var err error
						pr, err = p.spawn(k)
						if err != nil {
							fmt.Fprintf(os.Stderr, "pool: cannot start worker: %v\n", err)
							os.Exit(2)
						}
					}
					b, _ := json.Marshal(j)
					b = append(b, '\n')
					_, werr := pr.stdin.Write(b)
					var line []byte
					var rerr error
					if werr == nil {
						line, rerr = pr.stdout.ReadBytes('\n')
					}
					if werr != nil || rerr != nil || len(line) == 0 {
						// worker died on this job
						if os.Getenv("MCX_DEBUG") != "" {
							fmt.Fprintf(os.Stderr, "pool: worker died: werr=%v rerr=%v stderr=%s\n", werr, rerr, pr.stderr.String())
						}
						pr.stdin.Close()
						pr.cmd.Wait()
						var prefix []string
						if cb, e := os.ReadFile(pr.cur); e == nil {
							json.Unmarshal(cb, &prefix)
						}
						stderr := pr.stderr.String()
						pr = nil
						p.mu.Lock()
						p.Crashes++
						p.mu.Unlock()
						if p.onCrash != nil {
							p.onCrash(j, prefix, stderr)
						}
						j.Skip = append(j.Skip, joinPrefix(prefix))
						if j.Replay {
							break
						}
						if attempt > 200 {
							fmt.Fprintf(os.Stderr, "pool: job %d keeps killing workers, giving up on it\n", j.ID)
							break
						}
						continue
					}
					var r JobResult
					if e := json.Unmarshal(line, &r); e != nil {
						pr.stdin.Close()
						pr.cmd.Wait()
						fmt.Fprintf(os.Stderr, "pool: bad result: %v\nline: %.300s\nstderr: %s\n", e, string(line), pr.stderr.String())
						os.Exit(2)
					}
					if r.Tainted { // worker retires after this job (too many leaked goroutines)
						pr.stdin.Close()
						pr.cmd.Wait()
						pr = nil
						p.mu.Lock()
						p.Restarts++
						p.mu.Unlock()
					}
					p.onDone(j, &r)
					break
				}
				p.mu.Lock()
				p.active--
				p.mu.Unlock()
				p.cond.Broadcast()
			}
		}(k)
	}
	wg.Wait()
}
