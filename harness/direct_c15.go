package harness

import (
	"context"
	"errors"
	"fmt"
	"strings"
	"time"

	"github.com/ali-assar/NATS-Leader-Election/leader"
	"github.com/nats-io/nats.go"
)

// C15: every error term of a small grammar up to wrapping depth 3, plus error values
// captured live from an embedded nats-server through the library's adapter.

type eterm struct {
	desc    string
	err     error
	classes map[string]bool // classes of the classified leaves in the chain ("T","P")
	mixed   bool            // a non-neutral wrapper / more than one classified leaf
	typed   bool            // the classified leaf is recognisable by errors.Is / errors.As (not by its text)
}

func c15Leaves() []eterm {
	T := map[string]bool{"T": true}
	P := map[string]bool{"P": true}
	U := map[string]bool{}
	mk := func(d string, e error, c map[string]bool) eterm {
		// "also when wrapped with %w" is stated for the context errors, TimeoutError and the
		// library's configuration / permission / missing-bucket errors; for the NATS client's
		// errors the statement fixes the class of the value the client returns (and of
		// neutral wrappings), not of arbitrary texts around it
		return eterm{desc: d, err: e, classes: c, typed: len(c) == 1 && !strings.HasPrefix(d, "errors.New(") && !strings.HasPrefix(d, "nats")}
	}
	ls := []eterm{
		mk("leader.ErrNotLeader", leader.ErrNotLeader, U),
		mk("leader.ErrAlreadyStarted", leader.ErrAlreadyStarted, U),
		mk("leader.ErrAlreadyStopped", leader.ErrAlreadyStopped, U),
		mk("leader.ErrElectionFailed", leader.ErrElectionFailed, U),
		mk("leader.ErrHeartbeatFailed", leader.ErrHeartbeatFailed, U),
		mk("leader.ErrTokenValidationFailed", leader.ErrTokenValidationFailed, U),
		mk("leader.ErrInvalidConfig", leader.ErrInvalidConfig, P),
		mk("leader.ErrBucketNotFound", leader.ErrBucketNotFound, P),
		mk("leader.ErrPermissionDenied", leader.ErrPermissionDenied, P),
		mk("leader.ErrConnectionLost", leader.ErrConnectionLost, U),
		mk("leader.ErrTokenInvalid", leader.ErrTokenInvalid, U),
		mk("leader.ErrTokenMismatch", leader.ErrTokenMismatch, U),
		mk("context.Canceled", context.Canceled, T),
		mk("context.DeadlineExceeded", context.DeadlineExceeded, T),
		mk("TimeoutError{heartbeat update}", leader.NewTimeoutError("heartbeat update", time.Second, nil), T),
		mk("TimeoutError{}", leader.NewTimeoutError("", time.Second, nil), T),
		mk("TimeoutError{op name with pattern word 'invalid token check'}", leader.NewTimeoutError("invalid token check", time.Second, nil), T),
		mk("TimeoutError{op 'key not found lookup'}", leader.NewTimeoutError("key not found lookup", 2*time.Second, nil), T),
		mk("TimeoutError{inner neutral}", leader.NewTimeoutError("get", time.Second, errors.New("boom")), T),
		mk("ValidationError{TTL}", leader.NewValidationError("TTL", time.Duration(0), "TTL must be positive"), P),
		mk("ValidationError{Bucket}", leader.NewValidationError("Bucket", "", "bucket name is required"), P),
		mk("ElectionError{nil}", leader.NewElectionError("ACQUIRE", "i1", "lost the race", nil), U),
		mk("TokenValidationError{mismatch}", &leader.TokenValidationError{LocalToken: "a", KvToken: "b", Reason: "token mismatch"}, U),
		mk("nats.ErrTimeout", nats.ErrTimeout, T),
		mk("nats.ErrNoResponders", nats.ErrNoResponders, T),
		mk("nats.ErrConnectionClosed", nats.ErrConnectionClosed, T),
		mk("nats.ErrKeyExists", nats.ErrKeyExists, P),
		mk("nats create-on-existing-key error", fmt.Errorf("%w: %s", wrongLastSeq(7), "key exists"), P),
		mk("nats APIError 10071 wrong last sequence", wrongLastSeq(7), P),
		mk("nats APIError 10071 wrong last sequence: 0", wrongLastSeq(0), P),
		// the same refusal as a server of another version words it: an API error whose
		// description says "wrong last sequence" under an error code nats.go does not know
		// (nats-server 2.12 in a cluster: 10164, constant text)
		mk("nats APIError 10164 wrong last sequence (code unknown to the client)", &nats.APIError{Code: 400, ErrorCode: 10164, Description: "wrong last sequence"}, P),
		mk("nats APIError 10164 wrapped like ErrKeyExists", fmt.Errorf("%w: %s", &nats.APIError{Code: 400, ErrorCode: 10164, Description: "wrong last sequence"}, "key exists"), P),
		mk("nats APIError unknown code, neutral text", &nats.APIError{Code: 503, ErrorCode: 10999, Description: "something went wrong"}, U),
		mk("nats.ErrBucketNotFound", nats.ErrBucketNotFound, P),
		mk("nats.ErrKeyNotFound", nats.ErrKeyNotFound, U),
		mk("nats.ErrKeyDeleted", nats.ErrKeyDeleted, U),
		mk("nats.ErrBadRequest", nats.ErrBadRequest, U),
		mk("nats.ErrDisconnected", nats.ErrDisconnected, U),
	}
	words := []string{"revision mismatch", "key not found", "permission denied", "bucket not found", "access denied", "invalid", "authentication",
		"timeout", "deadline exceeded", "connection lost", "connection refused", "temporary", "unavailable", "network", "i/o timeout", "connection reset",
		"wrong last sequence", "key exists", "something else", ""}
	for _, w := range words {
		ls = append(ls, mk(fmt.Sprintf("errors.New(%q)", w), errors.New(w), U))
		if w != "" {
			up := strings.ToUpper(w)
			ls = append(ls, mk(fmt.Sprintf("errors.New(%q)", up), errors.New(up), U))
		}
	}
	return ls
}

var c15PermWords = []string{"revision mismatch", "key not found", "permission denied", "bucket not found", "access denied", "invalid", "authentication", "wrong last sequence", "key exists"}

func patternBearing(e error) bool {
	if e == nil {
		return false
	}
	m := strings.ToLower(e.Error())
	for _, w := range c15PermWords {
		if strings.Contains(m, w) {
			return true
		}
	}
	return false
}

type ewrap struct {
	name    string
	neutral bool
	f       func(error) error
}

var c15Wrappers = []ewrap{
	{"fmt.Errorf(%w)", true, func(e error) error { return fmt.Errorf("%w", e) }},
	{"fmt.Errorf(ctx: %w)", true, func(e error) error { return fmt.Errorf("while refreshing: %w", e) }},
	{"ElectionError{Err}", true, func(e error) error { return leader.NewElectionError("HB", "i1", "refresh failed", e) }},
	{"errors.Join", true, func(e error) error { return errors.Join(e) }},
	{"TimeoutError{Err}", false, func(e error) error { return leader.NewTimeoutError("op", time.Second, e) }},
	// wrapper texts that contain pattern words of the other class (a bucket called
	// "session-timeouts", a group called "invalid-tokens"): a leaf that is recognisable by
	// type or identity keeps its class "also when wrapped with %w"
	{"fmt.Errorf(timeout words: %w)", false, func(e error) error {
		return fmt.Errorf("bucket session-timeouts, deadline exceeded budget: %w", e)
	}},
	{"fmt.Errorf(permanent words: %w)", false, func(e error) error {
		return fmt.Errorf("group invalid-tokens (permission denied earlier): %w", e)
	}},
}

func c15Check(c *CheckCtx, t eterm, counts map[string]int) {
	p, tr := leader.IsPermanentError(t.err), leader.IsTransientError(t.err)
	counts["terms"]++
	if t.err == nil {
		if p || tr {
			c.DirectViolation("nil-classified", fmt.Sprintf("nil: permanent=%v transient=%v", p, tr), t.desc)
		}
		return
	}
	if p && tr {
		c.DirectViolation("both-classes", fmt.Sprintf("%s (%q): permanent and transient", t.desc, t.err.Error()), t.desc)
	}
	if !p && !tr {
		c.DirectViolation("no-class", fmt.Sprintf("%s (%q): neither permanent nor transient", t.desc, t.err.Error()), t.desc)
	}
	if t.mixed || len(t.classes) != 1 {
		return
	}
	counts["classified"]++
	leaf := t.desc
	if i := strings.LastIndex(leaf, "("); i >= 0 && strings.HasSuffix(leaf, ")") && strings.Contains(leaf, " <- ") {
		leaf = leaf[strings.LastIndex(leaf, " <- ")+4:]
	}
	if t.classes["T"] && !tr {
		c.DirectViolation("must-be-transient/"+leafName(t.desc), fmt.Sprintf("%s (%q) is classified permanent; the statement requires transient", t.desc, t.err.Error()), t.desc)
	}
	if t.classes["P"] && !p {
		c.DirectViolation("must-be-permanent/"+leafName(t.desc), fmt.Sprintf("%s (%q) is classified transient; the statement requires permanent", t.desc, t.err.Error()), t.desc)
	}
}

// leafName: the innermost term of a description "w1 <- w2 <- leaf", plus whether it is wrapped.
func leafName(desc string) string {
	parts := strings.Split(desc, " <- ")
	leaf := parts[len(parts)-1]
	if len(parts) > 1 {
		return leaf + "/wrapped"
	}
	return leaf
}

func c15Direct(c *CheckCtx) {
	counts := map[string]int{}
	var samples []any
	c15Check(c, eterm{desc: "nil", err: nil}, counts)
	level := c15Leaves()
	depthMax := 3
	for depth := 0; depth <= depthMax; depth++ {
		for i, t := range level {
			c15Check(c, t, counts)
			if len(samples) < 4 && i%37 == 5 {
				samples = append(samples, map[string]any{"term": t.desc, "text": t.err.Error(), "permanent": leader.IsPermanentError(t.err), "transient": leader.IsTransientError(t.err)})
			}
		}
		if depth == depthMax {
			break
		}
		var next []eterm
		for _, t := range level {
			for _, w := range c15Wrappers {
				nt := eterm{desc: w.name + " <- " + t.desc, err: w.f(t.err), classes: t.classes, mixed: t.mixed, typed: t.typed}
				if strings.HasPrefix(w.name, "fmt.Errorf(") && !w.neutral {
					if !t.typed || len(t.classes) != 1 {
						nt.mixed = true
					}
					next = append(next, nt)
					continue
				}
				if !w.neutral {
					// a TimeoutError around a classified-permanent or pattern-bearing
					// inner error is a mixed chain: only exclusivity/totality apply
					if (len(t.classes) > 0 && !t.classes["T"]) || patternBearing(t.err) {
						nt.mixed = true
					}
					if len(t.classes) == 0 {
						nt.classes = map[string]bool{"T": true}
					}
				}
				next = append(next, nt)
			}
		}
		// two-leaf joins at depth 1 only (exclusivity/totality)
		if depth == 0 {
			for i := 0; i < len(level); i += 3 {
				for j := 1; j < len(level); j += 7 {
					a, b := level[i], level[j]
					next = append(next, eterm{desc: "errors.Join <- {" + a.desc + ", " + b.desc + "}", err: errors.Join(a.err, b.err), classes: map[string]bool{}, mixed: true})
				}
			}
		}
		level = next
	}
	// live error values through the real adapter
	live, liveErr := c15Live(c)
	for _, t := range live {
		c15Check(c, t, counts)
		samples = append(samples, map[string]any{"term": t.desc, "text": t.err.Error(), "permanent": leader.IsPermanentError(t.err), "transient": leader.IsTransientError(t.err)})
	}
	if liveErr != nil {
		c.notes = append(c.notes, "live error capture incomplete: "+liveErr.Error())
	}
	c.extra["evaluations"] = counts["terms"]
	c.extra["distinct_nontrivial"] = counts["classified"]
	c.extra["live_error_values"] = len(live)
	c.extra["samples"] = samples
	c.extra["exhaustive"] = liveErr == nil
}

// c15Live captures the error values the real client returns through the adapter.
func c15Live(c *CheckCtx) ([]eterm, error) {
	env, err := startLive(c.Dir)
	if err != nil {
		return nil, err
	}
	defer env.stop()
	nc, err := env.connect()
	if err != nil {
		return nil, err
	}
	_, kv, err := env.bucket(nc, "c15", 0)
	if err != nil {
		return nil, err
	}
	T := map[string]bool{"T": true}
	P := map[string]bool{"P": true}
	var out []eterm
	rev, err := kv.Create("k", []byte("v1"))
	if err != nil {
		return nil, fmt.Errorf("create: %w", err)
	}
	if _, e := kv.Create("k", []byte("v2")); e != nil {
		out = append(out, eterm{desc: "live: Create on a live key", err: e, classes: P})
	} else {
		return out, fmt.Errorf("create on live key succeeded")
	}
	if _, e := kv.Update("k", []byte("v3"), rev+5); e != nil {
		out = append(out, eterm{desc: "live: Update with a stale revision", err: e, classes: P})
	}
	if _, e := kv.Update("absent", []byte("v3"), 3); e != nil {
		out = append(out, eterm{desc: "live: Update of an absent key with a revision", err: e, classes: P})
	}
	if _, e := kv.Get("nokey"); e != nil {
		out = append(out, eterm{desc: "live: Get on an absent key", err: e, classes: map[string]bool{}})
	}
	// request time-out with the server gone, then closed connection
	nc2, err := nats.Connect(env.srv.ClientURL(), nats.MaxReconnects(-1), nats.ReconnectWait(5*time.Second))
	if err != nil {
		return out, err
	}
	env.conns = append(env.conns, nc2)
	js2, _ := nc2.JetStream(nats.MaxWait(200 * time.Millisecond))
	kvraw2, err := js2.KeyValue("c15")
	if err != nil {
		return out, err
	}
	kv2 := leader.VerifNewKeyValueAdapter(kvraw2)
	env.srv.Shutdown()
	env.srv.WaitForShutdown()
	if _, e := kv2.Update("k", []byte("v4"), rev); e != nil {
		cl := map[string]bool{}
		if errors.Is(e, nats.ErrTimeout) || errors.Is(e, nats.ErrNoResponders) || errors.Is(e, nats.ErrConnectionClosed) || errors.Is(e, context.DeadlineExceeded) {
			cl = T
		}
		out = append(out, eterm{desc: "live: Update with the server stopped", err: e, classes: cl})
	}
	nc2.Close()
	if _, e := kv2.Get("k"); e != nil {
		cl := map[string]bool{}
		if errors.Is(e, nats.ErrConnectionClosed) {
			cl = T
		}
		out = append(out, eterm{desc: "live: Get on a closed connection", err: e, classes: cl})
	}
	return out, nil
}

func init() {
	props["C15"] = &propDef{
		Level:  "exploration",
		Rule:   "every error term of the grammar: leaves = nil, 12 package sentinels, context errors, TimeoutError/ValidationError/ElectionError/TokenValidationError values, nats.go exported and API errors, errors.New over a word alphabet containing every pattern of error.go in both cases; wrappers = fmt.Errorf(%w) (two neutral texts, one text with transient pattern words, one with permanent pattern words), ElectionError, errors.Join, TimeoutError, nested to depth 3, plus sampled two-leaf joins; plus error values captured live from an embedded nats-server through the real adapter. Exclusivity/totality checked on every term; distinct_nontrivial = terms with exactly one classified leaf under neutral wrappers, for which the statement fixes the class",
		Assume: []string{"'permission / configuration / missing-bucket' errors are the library's sentinels and ValidationError plus nats.ErrBucketNotFound; texts outside the word alphabet are not enumerated"},
		Direct: c15Direct,
	}
}
