package harness

import (
	"context"
	"errors"
	"fmt"
	"math"
	"sort"
	"testing"
	"testing/synctest"
	"time"

	"github.com/ali-assar/NATS-Leader-Election/leader"
	"github.com/ali-assar/NATS-Leader-Election/verifshim/rt"
)

var c17T *testing.T

// refBackoffBase = min(MaxBackoff, InitialBackoff * Multiplier^n) as a real number.
func refBackoffBase(cfg leader.BackoffConfig, n int) float64 {
	if cfg.InitialBackoff == 0 {
		return 0 // 0 * m^n is 0 for every n, also when m^n overflows
	}
	b := float64(cfg.InitialBackoff) * math.Pow(cfg.BackoffMultiplier, float64(n))
	if b > float64(cfg.MaxBackoff) {
		b = float64(cfg.MaxBackoff)
	}
	return b
}

func c17Backoff(c *CheckCtx, counts map[string]int, samples *[]any) {
	inits := []time.Duration{0, 1, 50 * time.Millisecond, time.Second, time.Hour}
	maxs := []time.Duration{0, 1, time.Millisecond, 5 * time.Second, time.Hour, 100 * year}
	mults := []float64{1, 1.5, 2, 10}
	jits := []float64{0, 0.1, 0.5, 1}
	rands := []float64{0, 0.25, 0.5, 0.75, floatMax}
	attempts := []int{}
	for i := 0; i <= 70; i++ {
		attempts = append(attempts, i)
	}
	attempts = append(attempts, 1000, 1<<31, math.MaxInt)
	cur := 0.0
	rt.FloatFn = func() float64 { return cur }
	defer func() { rt.FloatFn = nil }()
	for _, in := range inits {
		for _, mx := range maxs {
			for _, mu := range mults {
				for _, ji := range jits {
					cfg := leader.BackoffConfig{InitialBackoff: in, MaxBackoff: mx, BackoffMultiplier: mu, Jitter: ji}
					for _, n := range attempts {
						base := refBackoffBase(cfg, n)
						for _, r := range rands {
							cur = r
							got := leader.CalculateBackoff(cfg, n)
							counts["backoff"]++
							// tolerance: 1ns for the float->Duration truncation plus float64 rounding
							// of the products (relative 2^-50)
							eps := 1 + base*(1+ji)*math.Pow(2, -50)
							lo, hi := base*(1-ji)-eps, base*(1+ji)+eps
							desc := fmt.Sprintf("CalculateBackoff({Initial:%v Max:%v Mult:%v Jitter:%v}, attempt=%d) with rand=%v", in, mx, mu, ji, n, r)
							if got < 0 {
								c.DirectViolation("backoff-negative", fmt.Sprintf("%s = %v", desc, got), desc)
							} else if float64(got) < lo || float64(got) > hi {
								c.DirectViolation("backoff-outside-jitter-band", fmt.Sprintf("%s = %v, allowed [%v, %v]", desc, got, time.Duration(lo), time.Duration(hi)), desc)
							}
							if n >= 3 && base > 0 && base < float64(mx) {
								counts["backoff_nontrivial"]++
							} else if base > 0 {
								counts["backoff_nontrivial"]++
							}
							if len(*samples) < 2 && counts["backoff"]%40009 == 0 {
								*samples = append(*samples, map[string]any{"case": desc, "result": got.String(), "reference_base": time.Duration(base).String()})
							}
						}
					}
				}
			}
		}
	}
}

var (
	errTransientOp = errors.New("boom (temporary)")
	errPermanentOp = leader.ErrPermissionDenied
)

// c17Retry: RetryWithBackoff in a bubble against a reference timeline.
func c17Retry(c *CheckCtx, counts map[string]int, samples *[]any) {
	c17RetryCfg(c, counts, samples, leader.BackoffConfig{InitialBackoff: 50 * time.Millisecond, MaxBackoff: 400 * time.Millisecond, BackoffMultiplier: 2, Jitter: 0.1}, 5)
	// a configuration whose computed wait is 0 ns (valid: no lower bound on InitialBackoff)
	c17RetryCfg(c, counts, samples, leader.BackoffConfig{InitialBackoff: 0, MaxBackoff: 0, BackoffMultiplier: 2, Jitter: 0}, 4)
}

func c17RetryCfg(c *CheckCtx, counts map[string]int, samples *[]any, cfgB leader.BackoffConfig, maxLen int) {
	outcomes := []string{"ok", "tr", "pe"}
	var seqs [][]string
	var gen func(cur []string, n int)
	gen = func(cur []string, n int) {
		seqs = append(seqs, append([]string{}, cur...))
		if n == 0 {
			return
		}
		for _, o := range outcomes {
			gen(append(cur, o), n-1)
		}
	}
	gen(nil, maxLen)
	randSeq := []float64{0.5, 0, floatMax, 0.25}
	for _, seq := range seqs {
		for maxA := 0; maxA <= 4; maxA++ {
			for _, breaker := range []int{0, 1, 2} { // 0 = none, else threshold
				// reference timeline without cancellation
				type refRes struct {
					calls []time.Duration
					ret   string
				}
				ref := func(cancelAt time.Duration) refRes {
					var rr refRes
					t := time.Duration(0)
					fails := 0
					cbOpen := false
					var lastFail time.Duration
					cool := 120 * time.Millisecond
					for attempt := 0; ; attempt++ {
						if cancelAt >= 0 && cancelAt <= t {
							rr.ret = "ctx"
							return rr
						}
						// breaker gate
						if breaker > 0 && cbOpen && t-lastFail < cool {
							rr.ret = "open"
							return rr
						}
						out := "ok"
						if attempt < len(seq) {
							out = seq[attempt]
						}
						rr.calls = append(rr.calls, t)
						if out == "ok" {
							rr.ret = "nil"
							return rr
						}
						fails++
						lastFail = t
						if breaker > 0 && fails >= breaker {
							cbOpen = true
						}
						if out == "pe" {
							rr.ret = "perm"
							return rr
						}
						if maxA > 0 && attempt >= maxA-1 {
							rr.ret = "max"
							return rr
						}
						r := randSeq[attempt%len(randSeq)]
						base := refBackoffBase(cfgB, attempt)
						wait := time.Duration(base + base*cfgB.Jitter*(r*2-1))
						if cancelAt >= 0 && cancelAt < t+wait {
							rr.ret = "ctx"
							return rr
						}
						t += wait
					}
				}
				base := ref(-1)
				cancels := []time.Duration{-1, 0}
				for i := 1; i < len(base.calls); i++ {
					cancels = append(cancels, (base.calls[i-1]+base.calls[i])/2)
				}
				for _, cancelAt := range cancels {
					want := ref(cancelAt)
					var gotCalls []time.Duration
					var gotErr error
					synctest.Test(c17T, func(t *testing.T) {
						start := time.Now()
						ctx, cancel := context.WithCancel(context.Background())
						defer cancel()
						if cancelAt == 0 {
							cancel()
						} else if cancelAt > 0 {
							time.AfterFunc(cancelAt, cancel)
						}
						k := 0
						rt.FloatFn = func() float64 { v := randSeq[k%len(randSeq)]; k++; return v }
						defer func() { rt.FloatFn = nil }()
						rc := leader.RetryConfig{MaxAttempts: maxA, BackoffConfig: cfgB}
						if breaker > 0 {
							rc.CircuitBreaker = leader.NewCircuitBreaker(breaker, 120*time.Millisecond)
						}
						n := 0
						gotErr = leader.RetryWithBackoff(ctx, rc, func() error {
							gotCalls = append(gotCalls, time.Since(start))
							out := "ok"
							if n < len(seq) {
								out = seq[n]
							}
							n++
							switch out {
							case "tr":
								return errTransientOp
							case "pe":
								return errPermanentOp
							}
							return nil
						})
					})
					counts["retry"]++
					if len(want.calls) > 1 {
						counts["retry_nontrivial"]++
					}
					desc := fmt.Sprintf("RetryWithBackoff outcomes=%v MaxAttempts=%d breakerThreshold=%d cancelAt=%v backoff=%v/x%v/j%v", seq, maxA, breaker, cancelAt, cfgB.InitialBackoff, cfgB.BackoffMultiplier, cfgB.Jitter)
					gotRet := "nil"
					switch {
					case gotErr == nil:
					case errors.Is(gotErr, context.Canceled):
						gotRet = "ctx"
					case gotErr.Error() == "circuit breaker is open":
						gotRet = "open"
					case errors.Is(gotErr, errPermanentOp):
						gotRet = "perm"
					default:
						gotRet = "max"
					}
					if len(gotCalls) > len(want.calls) {
						why := "after-" + want.ret
						c.DirectViolation("retry-extra-invocation/"+why, fmt.Sprintf("%s: operation invoked %d times at %v, reference %d times at %v (reference result %s)", desc, len(gotCalls), gotCalls, len(want.calls), want.calls, want.ret), desc)
					} else if len(gotCalls) < len(want.calls) {
						c.DirectViolation("retry-missing-invocation", fmt.Sprintf("%s: operation invoked %d times at %v, reference %d times at %v", desc, len(gotCalls), gotCalls, len(want.calls), want.calls), desc)
					} else {
						for i := range gotCalls {
							if gotCalls[i] != want.calls[i] {
								c.DirectViolation("retry-wrong-wait", fmt.Sprintf("%s: invocation %d at %v, reference %v", desc, i, gotCalls[i], want.calls[i]), desc)
								break
							}
						}
					}
					if gotRet != want.ret && !(gotRet == "max" && want.ret == "max") {
						c.DirectViolation("retry-wrong-result/"+want.ret+"-vs-"+gotRet, fmt.Sprintf("%s: returned %v, reference outcome %s", desc, gotErr, want.ret), desc)
					}
					if len(*samples) < 4 && counts["retry"]%9001 == 0 {
						*samples = append(*samples, map[string]any{"case": desc, "invocations_at": fmt.Sprint(gotCalls), "returned": errStr(gotErr)})
					}
				}
			}
		}
	}
}

// c17RetryCancelInOp: the context is cancelled *inside* the k-th invocation of the
// operation (which then fails transiently). No later invocation may happen. With a zero
// backoff the retry loop's select finds both ctx.Done() and the backoff timer ready; Go
// resolves that at random, which the explorer does not control, so each of those cases is
// executed c17Repeat times (every execution is checked exactly).
const c17Repeat = 64

func c17RetryCancelInOp(c *CheckCtx, counts map[string]int, samples *[]any) {
	cfgs := []leader.BackoffConfig{
		{InitialBackoff: 0, MaxBackoff: 0, BackoffMultiplier: 2, Jitter: 0},
		{InitialBackoff: 0, MaxBackoff: time.Second, BackoffMultiplier: 2, Jitter: 0.1},
		{InitialBackoff: 50 * time.Millisecond, MaxBackoff: 400 * time.Millisecond, BackoffMultiplier: 2, Jitter: 0.1},
	}
	for ci, cfgB := range cfgs {
		for maxA := 0; maxA <= 4; maxA++ {
			for k := 1; k <= 4; k++ { // cancel inside the k-th invocation
				if maxA > 0 && k > maxA {
					continue
				}
				reps := 1
				if cfgB.InitialBackoff == 0 {
					reps = c17Repeat
				}
				for rep := 0; rep < reps; rep++ {
					calls, after := 0, 0
					var gotErr error
					synctest.Test(c17T, func(t *testing.T) {
						ctx, cancel := context.WithCancel(context.Background())
						defer cancel()
						rt.FloatFn = func() float64 { return 0.5 }
						defer func() { rt.FloatFn = nil }()
						cancelled := false
						gotErr = leader.RetryWithBackoff(ctx, leader.RetryConfig{MaxAttempts: maxA, BackoffConfig: cfgB}, func() error {
							calls++
							if cancelled {
								after++
							}
							if calls == k {
								cancel()
								cancelled = true
							}
							if calls > 8 {
								return nil
							}
							return errTransientOp
						})
					})
					counts["retry_cancel_in_op"]++
					desc := fmt.Sprintf("RetryWithBackoff backoff-config #%d (Initial %v) MaxAttempts=%d, context cancelled inside invocation %d (repetition %d)", ci, cfgB.InitialBackoff, maxA, k, rep)
					if after > 0 {
						c.DirectViolation("retry-invocation-after-cancel", fmt.Sprintf("%s: the operation was invoked %d more time(s) after the cancellation; returned %v", desc, after, gotErr), desc)
					}
					if gotErr == nil {
						c.DirectViolation("retry-nil-after-cancel", fmt.Sprintf("%s: returned nil", desc), desc)
					}
				}
			}
		}
	}
}

// c17Breaker: every sequence of (outcome, gap) against the reference FSM.
func c17Breaker(c *CheckCtx, counts map[string]int, samples *[]any) {
	cool := 100 * time.Millisecond
	gaps := []time.Duration{0, cool - 1, cool + 1}
	type stepT struct {
		fail bool
		gap  time.Duration
	}
	var seqs [][]stepT
	var gen func(cur []stepT, n int)
	gen = func(cur []stepT, n int) {
		if len(cur) > 0 {
			seqs = append(seqs, append([]stepT{}, cur...))
		}
		if n == 0 {
			return
		}
		for _, f := range []bool{false, true} {
			for _, g := range gaps {
				gen(append(cur, stepT{f, g}), n-1)
			}
		}
	}
	gen(nil, 6)
	// only maximal sequences are needed (prefixes are covered by them), keep len==6
	for thr := 1; thr <= 3; thr++ {
		for _, seq := range seqs {
			if len(seq) != 6 {
				continue
			}
			synctest.Test(c17T, func(t *testing.T) {
				cb := leader.NewCircuitBreaker(thr, cool)
				start := time.Now()
				// reference
				open := false
				fails := 0
				var lastFail time.Duration
				for i, st := range seq {
					time.Sleep(st.gap)
					now := time.Since(start)
					wantInvoke := true
					if open && now-lastFail < cool {
						wantInvoke = false
					}
					invoked := false
					err := cb.Call(func() error {
						invoked = true
						if st.fail {
							return errTransientOp
						}
						return nil
					})
					counts["breaker_steps"]++
					desc := fmt.Sprintf("CircuitBreaker(threshold=%d, cooldown=%v) step %d of %v", thr, cool, i, seq)
					if invoked != wantInvoke {
						sig := "breaker-invoked-while-open"
						if wantInvoke {
							sig = "breaker-rejected-while-closed-or-cooled-down"
						}
						c.DirectViolation(sig, fmt.Sprintf("%s: invoked=%v, reference %v (open=%v, consecutive failures=%d, since last failure=%v)", desc, invoked, wantInvoke, open, fails, now-lastFail), desc)
						return
					}
					if !invoked {
						if err == nil {
							c.DirectViolation("breaker-open-returns-nil", desc, desc)
						}
						continue
					}
					if st.fail {
						fails++
						lastFail = now
						if fails >= thr {
							open = true
						}
						if err == nil {
							c.DirectViolation("breaker-swallows-error", desc, desc)
						}
					} else {
						fails = 0
						open = false
						if err != nil {
							c.DirectViolation("breaker-error-on-success", desc, desc)
						}
					}
				}
			})
			counts["breaker"]++
			if len(*samples) < 6 && counts["breaker"]%50021 == 0 {
				*samples = append(*samples, map[string]any{"case": fmt.Sprintf("breaker threshold=%d sequence=%v", thr, seq)})
			}
		}
	}
}

func c17Direct(c *CheckCtx) {
	counts := map[string]int{}
	var samples []any
	c17Backoff(c, counts, &samples)
	c17Retry(c, counts, &samples)
	c17RetryCancelInOp(c, counts, &samples)
	c17Breaker(c, counts, &samples)
	c.extra["direct_backoff_cases"] = counts["backoff"]
	c.extra["direct_retry_cases"] = counts["retry"]
	c.extra["direct_retry_cancel_inside_operation_executions"] = counts["retry_cancel_in_op"]
	c.extra["direct_breaker_sequences"] = counts["breaker"]
	c.extra["direct_breaker_steps"] = counts["breaker_steps"]
	c.extra["direct_nontrivial"] = counts["backoff_nontrivial"] + counts["retry_nontrivial"] + counts["breaker"]
	c.extra["direct_samples"] = samples
}

// ---------------------------------------------------------------- (iv) acquisition rounds

func init() { oracles["C17"] = oracleC17 }

func oracleC17(r *Result) ([]Violation, bool) {
	var s vset
	type key struct {
		inst string
		gid  int
	}
	rounds := map[key][]*Op{}
	var order []key
	for _, op := range r.Ops {
		if op.gid == 0 {
			continue
		}
		k := key{op.Inst, op.gid}
		if _, ok := rounds[k]; !ok {
			order = append(order, k)
		}
		rounds[k] = append(rounds[k], op)
	}
	sort.Slice(order, func(i, j int) bool {
		if order[i].inst != order[j].inst {
			return order[i].inst < order[j].inst
		}
		return order[i].gid < order[j].gid
	})
	nontrivial := false
	def := leader.DefaultBackoffConfig()
	for _, k := range order {
		ops := rounds[k]
		if len(ops) == 0 || ops[0].Kind != "Rand" || ops[0].Label != "acquire" {
			continue // not an attemptAcquireWithRetry goroutine
		}
		j := ops[0]
		if !j.Answered || j.Fault != "" {
			continue
		}
		nontrivial = true
		wantFirst := j.TAnswer + 10*time.Millisecond + time.Duration(j.resF*float64(90*time.Millisecond))
		creates := 0
		var lastAnswer time.Duration
		var pendingBackoff *Op
		retry := 0
		for _, op := range ops[1:] {
			switch {
			case op.Kind == "Create":
				creates++
				if creates == 1 {
					if op.TIssue != wantFirst {
						s.add(op.TIssue, "round-initial-jitter", "%s: acquisition round drew r=%v at %v, first Create issued at %v, expected %v (10ms + r*90ms)", k.inst, j.resF, j.TAnswer, op.TIssue, wantFirst)
					}
					if d := op.TIssue - j.TAnswer; d < 10*time.Millisecond || d > 100*time.Millisecond {
						s.add(op.TIssue, "round-jitter-out-of-range", "%s: first Create %v after the trigger (allowed 10-100ms)", k.inst, d)
					}
				} else if pendingBackoff != nil && pendingBackoff.Answered && pendingBackoff.Fault == "" {
					base := refBackoffBase(def, retry-1)
					want := lastAnswer + time.Duration(base+base*def.Jitter*(pendingBackoff.resF*2-1))
					if op.TIssue != want {
						s.add(op.TIssue, "round-backoff", "%s: attempt %d of a round issued at %v, expected %v (previous attempt answered %v, backoff draw %v)", k.inst, creates, op.TIssue, want, lastAnswer, pendingBackoff.resF)
					}
				}
				if creates > 4 {
					s.add(op.TIssue, "round-too-many-attempts", "%s: acquisition round made %d Create attempts", k.inst, creates)
				}
				pendingBackoff = nil
			case op.Kind == "Rand" && op.Label == "backoff":
				pendingBackoff = op
				retry++
				lastAnswer = op.TAnswer
			}
		}
	}
	return s.vs, nontrivial
}

func c17OutsideDelete() *Scenario {
	s := equalPrioTakeover(scnElect("outside-delete-takeover-equal-K1", K1, "A", "B"))
	s.Script = append(s.Script, Item{At: 2*s.H + 53*ms, Actor: "outside", Do: "delete"})
	s.Horizon = 2*s.H + 53*ms + 1200*ms
	return s
}

func c17Plan(tier string) []PlanItem {
	d := 1
	if tier == "thorough" {
		d = 2
	}
	return []PlanItem{
		{scnElect("elect2-K1", K1, "A", "B"), d + 1},
		{scnFailoverDel("failover-del2-K1", K1, "A", "B"), d},
		{scnFailoverDel("failover-del3-K1", K1, "A", "B", "C"), d},
		{scnFailoverCrash("failover-crash2-K1", K1, "A", "B"), d},
		{scnPreempt("preempt-lowfirst-K1", K1, []InstSpec{{ID: "A", Priority: 1, Takeover: true}, {ID: "B", Priority: 2, Takeover: true}}, []string{"A", "B"}), d},
		// equal priorities with takeover enabled, the leader's record deleted from outside:
		// the explorer places the deletion between a failed Create and the takeover's read
		{c17OutsideDelete(), d},
	}
}

func init() {
	props["C17"] = &propDef{
		Level:  "exploration",
		Rule:   "(i) CalculateBackoff over the product of a backoff-config lattice x attempts {0..70, 1000, 2^31, MaxInt} x owned random values {0,.25,.5,.75,1-2^-53} against interval arithmetic; (ii) RetryWithBackoff in a virtual-time bubble for every outcome sequence over {ok,transient,permanent} of length <=5 x MaxAttempts 0..4 x breaker {none,1,2} x cancellation before the first call and in the middle of every wait, for a 50ms..400ms x2 backoff and (length <=4) a configuration whose waits are 0ns (InitialBackoff 0), against a reference timeline (exact call instants, result class); (iii) CircuitBreaker for every length-6 sequence of (outcome, gap in {0, cooldown-1ns, cooldown+1ns}) x threshold 1..3 against a reference FSM; (iv) every acquisition round in every explored execution (<= D deviations, incl. all jitter/backoff draws from the menu) of the listed election scenarios: first Create exactly 10ms + r*90ms after the round's trigger, <=4 attempts, gaps equal to the backoff for the drawn value. evaluations/distinct_nontrivial count the executions of (iv); the direct enumerations are reported under direct_*",
		Assume: []string{"backoff lattice restricted to Jitter in [0,1], Multiplier >= 1, MaxBackoff <= 100 years", "the breaker is exercised at cooldown-1ns and cooldown+1ns, not at exactly the cooldown"},
		Direct: c17Direct,
		Plan:   c17Plan,
	}
}
