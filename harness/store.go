package harness

import (
	"fmt"
	"time"

	"github.com/nats-io/nats.go"
)

// Msg is one message (record version or tombstone) of the reference bucket.
type Msg struct {
	Key  string        `json:"key"`
	Rev  uint64        `json:"rev"`
	Val  []byte        `json:"val"`
	Del  bool          `json:"del,omitempty"`
	At   time.Duration `json:"at"`
	By   string        `json:"by"` // issuer: instance id, or "outside"
	OpID string        `json:"op"`
}

// Store is the reference model of one JetStream KV bucket (DESIGN §3): one sequence
// counter per bucket, per key the latest message, bucket-wide MaxAge. It is boring on
// purpose and is bound to the real server by the C14 check.
type Store struct {
	Seq    uint64
	TTL    time.Duration // bucket MaxAge; 0 = no expiry
	Latest map[string]*Msg
	Hist   []*Msg
}

func NewStore(ttl time.Duration) *Store {
	return &Store{TTL: ttl, Latest: map[string]*Msg{}}
}

// latest returns the latest unexpired message of key (put or tombstone) or nil.
func (s *Store) latest(key string, now time.Duration) *Msg {
	m := s.Latest[key]
	if m == nil {
		return nil
	}
	if s.TTL > 0 && now-m.At >= s.TTL {
		return nil
	}
	return m
}

// Live returns the latest unexpired put of key, or nil (absent, deleted, expired).
func (s *Store) Live(key string, now time.Duration) *Msg {
	m := s.latest(key, now)
	if m == nil || m.Del {
		return nil
	}
	return m
}

func wrongLastSeq(last uint64) *nats.APIError {
	return &nats.APIError{Code: 400, ErrorCode: nats.JSErrCodeStreamWrongLastSequence,
		Description: fmt.Sprintf("wrong last sequence: %d", last)}
}

func (s *Store) put(key string, val []byte, del bool, now time.Duration, by, opid string) *Msg {
	s.Seq++
	m := &Msg{Key: key, Rev: s.Seq, Val: append([]byte(nil), val...), Del: del, At: now, By: by, OpID: opid}
	s.Latest[key] = m
	s.Hist = append(s.Hist, m)
	return m
}

// Update: succeeds iff the latest unexpired message of the key has revision rev
// (or there is none and rev == 0).
func (s *Store) Update(key string, val []byte, rev uint64, now time.Duration, by, opid string) (*Msg, *Msg, error) {
	cur := s.latest(key, now)
	var last uint64
	if cur != nil {
		last = cur.Rev
	}
	if last != rev {
		return nil, cur, wrongLastSeq(last)
	}
	return s.put(key, val, false, now, by, opid), cur, nil
}

// Create = Update(0); over a tombstone = Update(tombstone.rev); on a live value the
// nats.go wrapped "key exists" error.
func (s *Store) Create(key string, val []byte, now time.Duration, by, opid string) (*Msg, *Msg, error) {
	cur := s.latest(key, now)
	if cur == nil || cur.Del {
		return s.put(key, val, false, now, by, opid), cur, nil
	}
	return nil, cur, fmt.Errorf("%w: %s", wrongLastSeq(cur.Rev), "key exists")
}

func (s *Store) Get(key string, now time.Duration) (*Msg, error) {
	m := s.Live(key, now)
	if m == nil {
		return nil, nats.ErrKeyNotFound
	}
	return m, nil
}

// Delete is blind: always appends a tombstone.
func (s *Store) Delete(key string, now time.Duration, by, opid string) (*Msg, *Msg) {
	cur := s.latest(key, now)
	return s.put(key, nil, true, now, by, opid), cur
}
