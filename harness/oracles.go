package harness

import (
	"encoding/json"
	"fmt"
	"strings"
	"time"
)

type oracleFn func(r *Result) (viols []Violation, nontrivial bool)

var oracles = map[string]oracleFn{}

// Evaluate runs the oracle of prop on one execution. Every oracle also reports
// harness-level observations that no property tolerates silently.
func Evaluate(prop string, r *Result) ([]Violation, bool) {
	f := oracles[prop]
	if f == nil {
		return nil, false
	}
	// What the instances do while the harness tears the execution down (root context
	// cancelled, everything in flight answered with "connection closed") is not part of
	// the execution: the oracles see the trace up to and including the teardown marker.
	view := *r
	for i, e := range r.Trace {
		if e.K == "teardown" {
			view.Trace = r.Trace[:i+1]
			break
		}
	}
	vs, nt := f(&view)
	for i := range vs {
		vs[i].Prop = prop
	}
	return vs, nt
}

func viol(sig, format string, a ...any) Violation {
	return Violation{Sig: sig, Msg: fmt.Sprintf(format, a...)}
}

// Summarize gives a one-line description of an execution for evidence samples.
func Summarize(r *Result) string {
	var sb strings.Builder
	nOps, nEdges := 0, 0
	last := map[string]bool{}
	for _, e := range r.Trace {
		switch e.K {
		case "op.answer":
			nOps++
		case "gauge":
			if last[e.I] != e.B {
				nEdges++
				last[e.I] = e.B
				fmt.Fprintf(&sb, "%s:%s=%v@%v ", "edge", e.I, e.B, e.T)
			}
		case "promote":
			fmt.Fprintf(&sb, "promote:%s@%v ", e.I, e.T)
		case "demote":
			fmt.Fprintf(&sb, "demote:%s@%v ", e.I, e.T)
		}
	}
	return fmt.Sprintf("%d choice points, %d store/env ops answered, end=%v; %s", len(r.Chosen), nOps, r.EndT, strings.TrimSpace(sb.String()))
}

// ---------------------------------------------------------------- helpers over the trace

// stopReturned returns, per instance, the times at which a stop call returned nil
// and the times of subsequent successful starts.
type lifeEv struct {
	T    time.Duration
	Kind string // start | stop.call | stop.ret
	OK   bool
	Name string
}

func lifecycle(r *Result) map[string][]lifeEv {
	out := map[string][]lifeEv{}
	for _, e := range r.Trace {
		if e.K != "api.call" && e.K != "api.ret" {
			continue
		}
		do := e.S
		if i := strings.Index(do, ":"); i > 0 {
			do = do[:i]
		}
		switch {
		case e.K == "api.ret" && do == "start":
			out[e.I] = append(out[e.I], lifeEv{e.T, "start", e.S2 == "nil", e.S})
		case e.K == "api.call" && (do == "stop" || do == "stopctx"):
			out[e.I] = append(out[e.I], lifeEv{e.T, "stop.call", true, e.S})
		case e.K == "api.ret" && (do == "stop" || do == "stopctx"):
			out[e.I] = append(out[e.I], lifeEv{e.T, "stop.ret", e.S2 == "nil", e.S})
		}
	}
	return out
}

// stoppedAt reports whether instance i is "stopped" at trace index idx: a stop call
// returned nil earlier and no Start call has been issued since.
func stoppedBefore(r *Result, inst string, idx int) bool {
	stopped := false
	for k := 0; k < idx && k < len(r.Trace); k++ {
		e := r.Trace[k]
		if e.I != inst {
			continue
		}
		do := e.S
		if i := strings.Index(do, ":"); i > 0 {
			do = do[:i]
		}
		if e.K == "api.ret" && (do == "stop" || do == "stopctx") && e.S2 == "nil" {
			stopped = true
		}
		if e.K == "api.call" && do == "start" {
			stopped = false
		}
	}
	return stopped
}

// ---------------------------------------------------------------- C02

func init() { oracles["C02"] = oracleC02 }

// C02: at every observation instant (every is-leader gauge call, every callback,
// every quiescent point) at most one instance claims, and every claim is backed by
// the live record (id and current token).
func oracleC02(r *Result) ([]Violation, bool) {
	var vs []Violation
	seen := map[string]bool{}
	add := func(v Violation, t time.Duration) {
		if !seen[v.Sig] {
			seen[v.Sig] = true
			v.At = t
			vs = append(vs, v)
		}
	}
	nontrivial := false
	for idx, e := range r.Trace {
		var leaders []string
		toks := map[string]string{}
		switch e.K {
		case "gauge", "promote", "demote":
			leaders = e.Leaders
			for i, l := range e.Leaders {
				if i < len(e.LTok) {
					toks[l] = e.LTok[i]
				}
			}
		case "q":
			for _, s := range e.Snap {
				if s.IsLeader {
					leaders = append(leaders, s.I)
					toks[s.I] = s.Token
				}
			}
		default:
			continue
		}
		if len(leaders) > 0 {
			nontrivial = true
		}
		for i := range leaders {
			for j := i + 1; j < len(leaders); j++ {
				if sameGroup(r, leaders[i], leaders[j]) {
					add(viol("two-leaders", "at %v (%s) instances %s and %s of one group both report IsLeader()==true", e.T, e.K, leaders[i], leaders[j]), e.T)
				}
			}
		}
		for _, l := range leaders {
			if e.K != "q" && !sameGroup(r, l, e.I) {
				continue
			}
			e := e
			rec := recOf(r, &e, l)
			after := ""
			if stoppedBefore(r, l, idx) {
				after = "/after-stop-returned"
			}
			switch {
			case rec == nil:
				add(viol("claim-unbacked/no-live-record"+after, "at %v (%s) %s reports leadership but the group has no live record", e.T, e.K, l), e.T)
			case rec.ID != l:
				add(viol("claim-unbacked/record-of-other"+after, "at %v (%s) %s reports leadership but the live record (rev %d) names %q", e.T, e.K, l, rec.Rev, rec.ID), e.T)
			case toks[l] != "" && rec.Token != toks[l]:
				add(viol("claim-unbacked/token-differs"+after, "at %v (%s) %s reports leadership with token %s but the live record (rev %d) carries %s", e.T, e.K, l, toks[l], rec.Rev, rec.Token), e.T)
			}
		}
	}
	return vs, nontrivial
}

// recOf returns the live record of inst's group as recorded in event e.
func recOf(r *Result, e *Ev, inst string) *RecView {
	g := "g"
	if sp := r.Scn.inst(inst); sp != nil && sp.Group != "" {
		g = sp.Group
	}
	if e.K != "q" || g == "g" {
		if e.K != "q" && e.I != inst {
			// non-q events carry the record of e.I's group only
			if sp := r.Scn.inst(e.I); sp != nil {
				g2 := sp.Group
				if g2 == "" {
					g2 = "g"
				}
				if g2 != g {
					return nil
				}
			}
		}
		return e.Rec
	}
	return e.Recs[g]
}

func sameGroup(r *Result, a, b string) bool {
	ga, gb := "g", "g"
	if sp := r.Scn.inst(a); sp != nil && sp.Group != "" {
		ga = sp.Group
	}
	if sp := r.Scn.inst(b); sp != nil && sp.Group != "" {
		gb = sp.Group
	}
	return ga == gb
}

func jsonUnmarshal(b []byte, v any) error { return json.Unmarshal(b, v) }
