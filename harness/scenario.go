package harness

import (
	"time"
)

const (
	ms = time.Millisecond
	us = time.Microsecond
)

type InstSpec struct {
	ID               string        `json:"id"`
	ConfigID         string        `json:"config_id,omitempty"` // ElectionConfig.InstanceID when it differs from the harness name (a restarted process re-using its id while the old one still runs)
	Group            string        `json:"group,omitempty"`
	Priority         int           `json:"prio,omitempty"`
	Takeover         bool          `json:"takeover,omitempty"`
	Health           []string      `json:"health,omitempty"` // scripted results ok|bad|slow; repeated last; nil = no checker
	HasHealth        bool          `json:"has_health,omitempty"`
	MaxFail          int           `json:"maxfail,omitempty"`
	Monitored        bool          `json:"monitored,omitempty"`
	Grace            time.Duration `json:"grace,omitempty"`
	NoPromoteBlock   bool          `json:"no_promote_block,omitempty"`
	DemoteDur        time.Duration `json:"demote_dur,omitempty"`         // OnDemote takes this long
	SlowDemoteMetric time.Duration `json:"slow_demote_metric,omitempty"` // Metrics.IncTransitions takes this long for LEADER->FOLLOWER
	PromoteLinger    time.Duration `json:"promote_linger,omitempty"`     // OnPromote returns this long after its context was cancelled
}

type Item struct {
	At    time.Duration `json:"at"`
	Actor string        `json:"actor"`
	Do    string        `json:"do"`
	Inst  string        `json:"inst,omitempty"`

	DeleteKey     bool          `json:"delete_key,omitempty"`
	WaitForDemote bool          `json:"wait_demote,omitempty"`
	Timeout       time.Duration `json:"timeout,omitempty"`
	CtxTimeout    time.Duration `json:"ctx_timeout,omitempty"` // 0 = background; <0 = already cancelled
	Payload       string        `json:"payload,omitempty"`
	Key           string        `json:"key,omitempty"`
	Fixed         bool          `json:"fixed,omitempty"`  // never moved by the explorer
	Manual        bool          `json:"manual,omitempty"` // fired only by a fine-mode trigger
}

type Scenario struct {
	Name string `json:"name"`
	Prop string `json:"-"`

	H          time.Duration `json:"h"`
	TTL        time.Duration `json:"ttl"`
	Validation time.Duration `json:"validation"`
	Insts      []InstSpec    `json:"insts"`
	Script     []Item        `json:"script"`
	Horizon    time.Duration `json:"horizon"`
	MaxSteps   int           `json:"max_steps"`

	// fault class
	LatencyBound     time.Duration   `json:"latency_bound,omitempty"` // >0: every store op of a connected instance is answered within it
	DelayMenu        []time.Duration `json:"delay_menu,omitempty"`
	AllowErr         []string        `json:"allow_err,omitempty"` // timeout noresp closed
	AllowLost        bool            `json:"allow_lost,omitempty"`
	WatchBroken      []string        `json:"watch_broken,omitempty"` // instances whose Watch requests always fail (time-out): they live on the periodic check alone
	AllowHang        bool            `json:"allow_hang,omitempty"`
	AllowDrop        bool            `json:"allow_drop,omitempty"`
	AllowDup         bool            `json:"allow_dup,omitempty"`
	DropAll          bool            `json:"drop_all,omitempty"`   // preset: watch events are dropped by default
	HoldWatch        bool            `json:"hold_watch,omitempty"` // preset: watch events (not the nil marker) are held back by default; delivering one is a deviation
	SplitApply       bool            `json:"split_apply,omitempty"`
	WatchFirst       bool            `json:"watch_first,omitempty"` // default environment delivers watch notifications before it answers pending operations
	RandMenu         []float64       `json:"rand_menu,omitempty"`
	MoveScript       bool            `json:"move_script,omitempty"`
	NoTimeDev        bool            `json:"no_time_dev,omitempty"` // do not offer "time" as a deviation
	PartitionTimeout time.Duration   `json:"partition_timeout,omitempty"`
	OnlyInst         []string        `json:"only_inst,omitempty"`    // deviations only on ops of these instances
	FaultLabels      []string        `json:"fault_labels,omitempty"` // err/lose/hang deviations only on ops with these labels
	DevFrom          time.Duration   `json:"dev_from,omitempty"`     // deviations only at/after this virtual time
	DevUntil         time.Duration   `json:"dev_until,omitempty"`

	// fine mode window
	FineFrom string `json:"fine_from,omitempty"` // script item name ("do:inst") whose firing switches fine mode on
	FineAt   string `json:"fine_at,omitempty"`   // event name whose execution switches fine mode on (just before it runs)
	FineFire []int  `json:"fine_fire,omitempty"` // script items (marked Manual) fired at that moment
	FinePts  int    `json:"fine_pts,omitempty"`
	Preempt  int    `json:"preempt,omitempty"`

	Fault *FaultSpec `json:"fault,omitempty"` // scripted store fault (C03)

	Tags map[string]string `json:"tags,omitempty"`
}

// FaultSpec: from the FromN-th heartbeat Update of Inst on, every store op of Inst
// is answered according to Mode: err:timeout | err:noresp | err:closed | hang | lost.
type FaultSpec struct {
	Inst  string `json:"inst"`
	FromN int    `json:"from_n"`
	Mode  string `json:"mode"`
	// WritesOnly: reads (Get) keep being answered normally - a store that has lost its
	// write quorum but still serves reads
	WritesOnly bool `json:"writes_only,omitempty"`
	// Once: only the FromN-th heartbeat Update is affected, everything else is answered
	Once bool `json:"once,omitempty"`
}

// cfgID: the InstanceID the election of harness instance id is configured with.
func (s *Scenario) cfgID(id string) string {
	if sp := s.inst(id); sp != nil && sp.ConfigID != "" {
		return sp.ConfigID
	}
	return id
}

func (s *Scenario) inst(id string) *InstSpec {
	for i := range s.Insts {
		if s.Insts[i].ID == id {
			return &s.Insts[i]
		}
	}
	return nil
}

// Timing configurations (DESIGN §4).
func K1(s *Scenario) *Scenario { s.H, s.TTL, s.Validation = 200*ms, 600*ms, 233*ms+13*us; return s }
func K2(s *Scenario) *Scenario { s.H, s.TTL, s.Validation = 200*ms, 1000*ms, 0; return s }
func K4(s *Scenario) *Scenario { s.H, s.TTL, s.Validation = 20000*ms, 60000*ms, 0; return s }
func K5(s *Scenario) *Scenario { s.H, s.TTL, s.Validation = 500*ms, 1500*ms, 0; return s }
func K3(s *Scenario) *Scenario { s.H, s.TTL, s.Validation = 4000*ms, 12000*ms, 0; return s }

func (s *Scenario) faultFree() *Scenario {
	s.LatencyBound = s.H/2 - ms
	s.DelayMenu = []time.Duration{s.H/2 - 2*ms}
	s.AllowDup = true
	s.RandMenu = []float64{0, 1 - 1.0/(1<<53)}
	s.MoveScript = true
	return s
}
