package harness

import (
	"encoding/json"
	"fmt"
	"strings"
	"time"
)

func init() {
	oracles["C01"] = oracleC01
	oracles["C05"] = oracleC05
	oracles["C07"] = oracleC07
	oracles["C08"] = oracleC08
	oracles["C09"] = oracleC09
	oracles["C18"] = oracleC18
	oracles["C19"] = oracleC19
}

type vset struct {
	vs   []Violation
	seen map[string]bool
}

func (s *vset) add(t time.Duration, sig, format string, a ...any) {
	if s.seen == nil {
		s.seen = map[string]bool{}
	}
	if s.seen[sig] {
		return
	}
	s.seen[sig] = true
	v := viol(sig, format, a...)
	v.At = t
	s.vs = append(s.vs, v)
}

type payload struct {
	ID    string `json:"id"`
	Token string `json:"token"`
	Prio  int    `json:"priority"`
}

func parsePayload(b []byte) (payload, bool) {
	var p payload
	if json.Unmarshal(b, &p) != nil {
		return p, false
	}
	return p, true
}

// evKind strips the operation counter from an event name: "ok:A.hb.Update#3" -> "ok:hb.Update".
func evKind(name string) string {
	if name == "" {
		return "none"
	}
	parts := strings.SplitN(name, ":", 3)
	kind := parts[0]
	switch kind {
	case "ok", "ret", "err", "lose", "lost", "apply":
		if len(parts) > 1 {
			id := parts[1]
			if i := strings.Index(id, "#"); i >= 0 {
				id = id[:i]
			}
			if j := strings.Index(id, "."); j >= 0 {
				id = id[j+1:]
			}
			if kind == "err" && len(parts) > 2 {
				return kind + ":" + id + ":" + parts[2]
			}
			return kind + ":" + id
		}
	case "fire":
		if len(parts) > 1 {
			return "fire:" + parts[1]
		}
	case "dlv", "dup", "drop":
		if len(parts) > 2 {
			if parts[2] == "nil" {
				return kind + ":nil-marker"
			}
			return kind + ":entry"
		}
	}
	return kind
}

// ---------------------------------------------------------------- C01

func oracleC01(r *Result) ([]Violation, bool) {
	var s vset
	nontrivial := false
	for _, op := range r.Ops {
		if !op.isStoreOp() || !op.Applied {
			continue
		}
		spec := r.Scn.inst(op.Inst)
		if spec == nil {
			continue
		}
		group := spec.Group
		if group == "" {
			group = "g"
		}
		if op.Key != group {
			s.add(op.TApply, "touches-other-group/"+op.Label+"."+op.Kind, "%s (group %s) issued %s on key %q", op.Inst, group, op.ID, op.Key)
		}
		if op.Wrote == nil {
			continue
		}
		nontrivial = true
		cur := op.Replaced
		live := cur != nil && !cur.Del
		switch op.Kind {
		case "Create":
			// store semantics: succeeds only without a live record -> (a)
		case "Update":
			if !live {
				continue // creation while no live record exists
			}
			np, _ := parsePayload(op.Val)
			cp, cok := parsePayload(cur.Val)
			owner := cur.By
			if cok && owner == op.Inst && cp.ID == op.Inst {
				// (b) refresh by the owner: same identity and token
				if np.ID != cp.ID || np.Token != cp.Token {
					s.add(op.TApply, "refresh-changes-identity/"+op.Label, "%s refreshed its record rev %d with id/token %s/%s instead of %s/%s", op.Inst, cur.Rev, np.ID, np.Token, cp.ID, cp.Token)
				}
				continue
			}
			// (c) takeover
			if spec.Takeover && cok && spec.Priority > cp.Prio {
				continue
			}
			s.add(op.TApply, "overwrite-of-foreign-record/"+op.Label, "%s (%s, takeover=%v prio=%d) replaced live record rev %d owned by %s (payload %s) at %v", op.Inst, op.ID, spec.Takeover, spec.Priority, cur.Rev, owner, string(cur.Val), op.TApply)
		case "Delete":
			if !live {
				continue
			}
			cp, cok := parsePayload(cur.Val)
			if cok && cur.By == op.Inst && cp.ID == op.Inst && op.InStop {
				continue // (d)
			}
			where := op.Label
			if op.InStop {
				// was the stopping instance still claiming when its stop call was issued?
				where = "StopWithContext/caller-did-not-lead-at-call"
				var callT time.Duration = -1
				for _, e := range r.Trace {
					if e.T > op.TIssue {
						break
					}
					if e.K == "api.call" && e.I == op.Inst && strings.HasPrefix(e.S, "stopctx:") {
						callT = e.T
						if e.B {
							where = "StopWithContext/caller-led-at-call"
						} else {
							where = "StopWithContext/caller-did-not-lead-at-call"
						}
					}
				}
				// a second (third ...) Delete of the same stop call: a shutdown deletes once
				for _, o2 := range r.Ops {
					if o2 != op && o2.Inst == op.Inst && o2.Kind == "Delete" && o2.InStop && o2.TIssue >= callT && o2.TIssue < op.TIssue {
						where += "/repeated-delete"
						break
					}
				}
			}
			s.add(op.TApply, "delete-of-foreign-record/"+where, "%s (%s) deleted live record rev %d owned by %s (payload %s) at %v", op.Inst, op.ID, cur.Rev, cur.By, string(cur.Val), op.TApply)
		}
	}
	return s.vs, nontrivial
}

// ---------------------------------------------------------------- C05

func oracleC05(r *Result) ([]Violation, bool) {
	var s vset
	seenTok := map[string]string{}
	acq := map[string][]string{} // per instance: tokens of its acquisition writes, in order
	nAcq := 0
	for _, op := range r.Ops {
		if !op.isStoreOp() || op.Wrote == nil || op.Wrote.Del {
			continue
		}
		np, ok := parsePayload(op.Val)
		if !ok {
			continue
		}
		cur := op.Replaced
		live := cur != nil && !cur.Del
		isRefresh := false
		if live && cur.By == op.Inst {
			if cp, cok := parsePayload(cur.Val); cok && cp.ID == r.Scn.cfgID(op.Inst) && op.Label == "hb" {
				isRefresh = true
				if np.ID != cp.ID || np.Token != cp.Token {
					s.add(op.TApply, "refresh-changes-token", "%s: refresh %s republished %s/%s over %s/%s", op.Inst, op.ID, np.ID, np.Token, cp.ID, cp.Token)
				}
			}
		}
		if !isRefresh {
			nAcq++
			if prev, dup := seenTok[np.Token]; dup {
				s.add(op.TApply, "token-reused/"+op.Label, "%s: acquisition write %s published token %s that already appeared in %s", op.Inst, op.ID, np.Token, prev)
			}
			acq[op.Inst] = append(acq[op.Inst], np.Token)
		}
		if _, dup := seenTok[np.Token]; !dup {
			seenTok[np.Token] = op.ID
		}
	}
	// token handed to OnPromote == token of the acquisition write
	pi := map[string]int{}
	lastProm := map[string]string{}
	acqRev := map[string]map[string]uint64{}
	for _, op := range r.Ops {
		if op.isStoreOp() && op.Wrote != nil && !op.Wrote.Del && (op.Kind == "Create" || op.Label == "takeover") {
			if p, ok := parsePayload(op.Val); ok {
				if acqRev[op.Inst] == nil {
					acqRev[op.Inst] = map[string]uint64{}
				}
				if acqRev[op.Inst][p.Token] == 0 {
					acqRev[op.Inst][p.Token] = op.Wrote.Rev
				}
			}
		}
	}
	for _, e := range r.Trace {
		// a Status() call made concurrently with the library's own activity (fine windows):
		// a snapshot that says "leader" at revision N carries the token this instance stored
		// in revision N
		if e.K == "api.ret" && strings.HasPrefix(e.S, "status") {
			if f := strings.Split(e.S2, "|"); len(f) >= 5 && f[1] == "true" {
				var rev uint64
				fmt.Sscanf(f[4], "%d", &rev)
				for _, op := range r.Ops {
					if op.Inst == e.I && op.isStoreOp() && op.Wrote != nil && !op.Wrote.Del && op.Wrote.Rev == rev && rev > 0 {
						if p, ok := parsePayload(op.Val); ok && p.Token != f[3] {
							s.add(e.T, "status-token-differs-from-record", "%s: a concurrent Status() call returned IsLeader=true Revision=%d Token=%q, but the record %s stored at revision %d carries token %s", e.I, rev, f[3], e.I, rev, p.Token)
						}
					}
				}
			}
		}
		if e.K == "promote" {
			found := false
			for _, t := range acq[e.I] {
				if t == e.S {
					found = true
				}
			}
			if !found {
				s.add(e.T, "promote-token-not-in-record", "%s: OnPromote got token %s which no acquisition write of %s carried", e.I, e.S, e.I)
			}
			pi[e.I]++
			lastProm[e.I] = e.S
		}
		if e.K == "q" {
			for _, sn := range e.Snap {
				if !sn.IsLeader || sn.Cut {
					continue
				}
				// the token handed to the (latest) promotion callback is the token in the record
				if rec := recOf(r, &e, sn.I); rec != nil && rec.ID == r.Scn.cfgID(sn.I) && rec.By == sn.I && !sn.Fine && !sn.Blocked && !sn.InStop &&
					sn.NProm-sn.NDem == 1 && lastProm[sn.I] != "" && lastProm[sn.I] != rec.Token {
					s.add(e.T, "promote-token-differs-from-record", "%s leads, its live record rev %d carries token %s, but its latest OnPromote was handed %s", sn.I, rec.Rev, rec.Token, lastProm[sn.I])
				}
				if !sn.Blocked && sn.SIsLead && sn.SToken != sn.Token {
					s.add(e.T, "status-token-differs", "%s: Token()=%s Status().Token=%s", sn.I, sn.Token, sn.SToken)
				}
				if rec := recOf(r, &e, sn.I); rec != nil && rec.ID == r.Scn.cfgID(sn.I) && rec.By == sn.I && rec.Token != sn.Token {
					if sn.Fine && acqRev[sn.I][rec.Token] > acqRev[sn.I][sn.Token] && acqRev[sn.I][sn.Token] > 0 {
						// inside a fine window: the live record is a *newer* acquisition write of
						// the same instance (a second round won after the first record had been
						// removed) whose reply the instance has not processed yet; judged at the
						// next quiescent point
						continue
					}
					s.add(e.T, "leader-token-differs-from-record", "%s leads with Token()=%s at %v (fine=%v, latest OnPromote %s) but its live record rev %d carries %s", sn.I, sn.Token, e.T, sn.Fine, lastProm[sn.I], rec.Rev, rec.Token)
				}
			}
		}
	}
	return s.vs, nAcq >= 2
}

// ---------------------------------------------------------------- observation series

type obs struct {
	idx    int
	t      time.Duration
	leader bool
	token  string
	cause  string
	q      bool
}

// series returns, per instance, every observation of its IsLeader()/Token().
func series(r *Result) map[string][]obs {
	out := map[string][]obs{}
	created := map[string]bool{}
	for idx, e := range r.Trace {
		switch e.K {
		case "gauge":
			created[e.I] = true
			tok := ""
			for i, l := range e.Leaders {
				if l == e.I && i < len(e.LTok) {
					tok = e.LTok[i]
				}
			}
			out[e.I] = append(out[e.I], obs{idx, e.T, e.B, tok, evKind(e.S2), false})
		case "q":
			for _, sn := range e.Snap {
				out[sn.I] = append(out[sn.I], obs{idx, e.T, sn.IsLeader, sn.Token, "", true})
			}
		}
	}
	return out
}

// stopCalls: trace indices of stop calls per instance.
func stopCallIdx(r *Result) map[string][]int {
	out := map[string][]int{}
	for idx, e := range r.Trace {
		// cancelling the context that was passed to Start is the third way of stopping
		if e.K == "api.call" && (strings.HasPrefix(e.S, "stop:") || strings.HasPrefix(e.S, "stopctx:") || strings.HasPrefix(e.S, "cancelctx:")) {
			out[e.I] = append(out[e.I], idx)
		}
	}
	return out
}

// ---------------------------------------------------------------- C07

func oracleC07(r *Result) ([]Violation, bool) {
	var s vset
	ser := series(r)
	stops := stopCallIdx(r)
	nontrivial := false
	for inst, os := range ser {
		leading := false
		var tok string
		var t0 time.Duration
		var i0 int
		nextStop := func(idx int) int {
			for _, k := range stops[inst] {
				if k > idx {
					return k
				}
			}
			return len(r.Trace)
		}
		end := -1
		for _, o := range os {
			if !leading {
				if o.leader {
					leading, tok, t0, i0 = true, o.token, o.t, o.idx
					end = nextStop(o.idx)
					nontrivial = true
				}
				continue
			}
			if o.idx >= end {
				leading = false
				if o.leader { // re-promoted after restart
					leading, tok, t0, i0 = true, o.token, o.t, o.idx
					end = nextStop(o.idx)
				}
				continue
			}
			if !o.leader {
				cause := o.cause
				if cause == "" {
					cause = "unattributed"
				}
				s.add(o.t, "spurious-demotion/"+cause, "%s became leader at %v (token %s) and stopped reporting leadership at %v in a fault-free run, before any stop call (step: %s)", inst, t0, tok, o.t, cause)
				leading = false
				continue
			}
			if o.token != "" && tok != "" && o.token != tok {
				s.add(o.t, "token-changed-within-term", "%s: token changed from %s to %s at %v without a demotion", inst, tok, o.token, o.t)
				tok = o.token
			}
		}
		_ = i0
	}
	// OnDemote without stop; record ownership during terms
	for inst, os := range ser {
		_ = os
		for idx, e := range r.Trace {
			if e.K == "demote" && e.I == inst {
				inStop := false
				for _, k := range stops[inst] {
					if k < idx {
						inStop = true
					}
				}
				if !inStop {
					s.add(e.T, "ondemote-in-fault-free-run", "%s: OnDemote ran at %v although the instance was never stopped", inst, e.T)
				}
			}
		}
	}
	// while an instance leads (between promotion and its stop call) the record never lapses or changes owner
	for idx, e := range r.Trace {
		if e.K != "q" {
			continue
		}
		for _, sn := range e.Snap {
			if !sn.IsLeader || sn.InStop || sn.StopDone {
				continue
			}
			stoppedCall := false
			for _, k := range stops[sn.I] {
				if k < idx {
					stoppedCall = true
				}
			}
			if stoppedCall {
				continue
			}
			if rec := recOf(r, &e, sn.I); rec == nil {
				s.add(e.T, "record-lapsed-under-leader", "%s leads at %v but the record has lapsed", sn.I, e.T)
			} else if rec.ID != sn.I {
				s.add(e.T, "record-changed-owner-under-leader", "%s leads at %v but the live record rev %d is owned by %s", sn.I, e.T, rec.Rev, rec.ID)
			}
		}
	}
	return s.vs, nontrivial
}

// ---------------------------------------------------------------- C08

func oracleC08(r *Result) ([]Violation, bool) {
	var s vset
	last := map[string]string{}
	nontrivial := false
	acqTok := map[string]map[string]bool{}
	for _, op := range r.Ops {
		if op.Wrote != nil && !op.Wrote.Del {
			if p, ok := parsePayload(op.Val); ok {
				if acqTok[op.Inst] == nil {
					acqTok[op.Inst] = map[string]bool{}
				}
				acqTok[op.Inst][p.Token] = true
			}
		}
	}
	lastCause := map[string]string{}
	lastLeader := map[string]bool{}
	lastPromTok := map[string]string{}
	// one history gets a signature of its own (known finding, DESIGN §9): a term that
	// superseded an earlier term of the same instance has its OnPromote queued behind the
	// earlier term's OnDemote (the library runs that one first, in the same goroutine); when
	// that OnDemote is slow and the new term ends meanwhile, the new term's OnDemote is
	// invoked by whoever noticed the loss and overtakes the queued OnPromote
	terms := map[string]int{}        // rises of the leadership flag
	proms := map[string]int{}        // OnPromote invocations
	inDem := map[string]int{}        // OnDemote invocations that have not returned yet (slow callbacks only)
	pendingProm := map[string]bool{} // an overtaken OnPromote is still to come
	var pendingSince time.Duration
	for _, e := range r.Trace {
		switch e.K {
		case "gauge":
			if lastLeader[e.I] && !e.B {
				lastCause[e.I] = evKind(e.S2)
			}
			if !lastLeader[e.I] && e.B {
				terms[e.I]++
			}
			lastLeader[e.I] = e.B
		case "demote.done":
			if inDem[e.I] > 0 {
				inDem[e.I]--
			}
		case "promote":
			nontrivial = true
			proms[e.I]++
			if pendingProm[e.I] {
				// the overtaken promotion, delivered late: the term it belongs to is over
				pendingProm[e.I] = false
				if !acqTok[e.I][e.S] {
					s.add(e.T, "promote-with-foreign-token", "%s: OnPromote got token %s which %s never wrote", e.I, e.S, e.I)
				}
				continue
			}
			if last[e.I] == "P" {
				s.add(e.T, "double-promote", "%s: OnPromote invoked twice without a demotion in between (at %v)", e.I, e.T)
			}
			if !acqTok[e.I][e.S] {
				s.add(e.T, "promote-with-foreign-token", "%s: OnPromote got token %s which %s never wrote", e.I, e.S, e.I)
			}
			last[e.I] = "P"
			lastPromTok[e.I] = e.S
		case "demote":
			overtakes := last[e.I] == "D" && inDem[e.I] > 0 && terms[e.I] > proms[e.I] && !pendingProm[e.I]
			if r.Scn.inst(e.I) != nil && r.Scn.inst(e.I).DemoteDur > 0 {
				inDem[e.I]++
			}
			if overtakes {
				s.add(e.T, "demote-overtakes-pending-promote/earlier-ondemote-still-running", "%s: OnDemote for the term that began at the latest rise of the flag was invoked at %v while that term's OnPromote is still queued behind the previous term's OnDemote, which has not returned yet (%d terms begun, %d promotions delivered)", e.I, e.T, terms[e.I], proms[e.I])
				pendingProm[e.I] = true
				pendingSince = e.T
				last[e.I] = "D"
				continue
			}
			switch last[e.I] {
			case "":
				s.add(e.T, "demote-without-promote", "%s: OnDemote invoked at %v before any OnPromote", e.I, e.T)
			case "D":
				s.add(e.T, "double-demote", "%s: OnDemote invoked twice for one loss of leadership (second at %v)", e.I, e.T)
			}
			last[e.I] = "D"
		case "q":
			for _, sn := range e.Snap {
				if pendingProm[sn.I] {
					continue // between the overtaking OnDemote and the late OnPromote: reported above
				}
				if sn.InStop || sn.StopFailed || sn.Cut || sn.Fine || sn.Blocked { // StopFailed: an incomplete shutdown (the statement lists the successful StopWithContext only); Blocked: a transition is in progress under the election mutex (slow application callback)
					continue
				}
				bal := sn.NProm - sn.NDem
				if sn.IsLeader && bal == 1 && lastPromTok[sn.I] != "" && sn.Token != lastPromTok[sn.I] {
					s.add(e.T, "term-without-promotion", "%s leads with token %s at %v, but its latest OnPromote carried %s: a term began without its promotion callback", sn.I, sn.Token, e.T, lastPromTok[sn.I])
				}
				switch {
				case sn.IsLeader && bal == 0 && inDem[sn.I] > 0 && terms[sn.I] > proms[sn.I]:
					// same known finding: the new term's OnPromote waits for the previous term's
					// slow OnDemote to return
					s.add(e.T, "leader-while-promotion-queued/earlier-ondemote-still-running", "%s reports leadership at %v with %d promotions and %d demotions delivered: the OnPromote of its new term is queued behind the previous term's OnDemote, which has not returned yet", sn.I, e.T, sn.NProm, sn.NDem)
				case sn.IsLeader && bal != 1:
					s.add(e.T, "leader-without-promote", "%s reports leadership at %v with %d promotions and %d demotions delivered", sn.I, e.T, sn.NProm, sn.NDem)
				case !sn.IsLeader && bal == 1:
					c := lastCause[sn.I]
					if c == "" {
						c = "unattributed"
					}
					s.add(e.T, "missing-demote/"+c, "%s does not report leadership at %v but OnDemote was not invoked (promotions %d, demotions %d; flag dropped in step %s)", sn.I, e.T, sn.NProm, sn.NDem, c)
				case !sn.IsLeader && bal != 0:
					s.add(e.T, "callback-imbalance", "%s: not leader at %v with %d promotions, %d demotions", sn.I, e.T, sn.NProm, sn.NDem)
				}
			}
		}
	}
	for inst, p := range pendingProm {
		if sp := r.Scn.inst(inst); p && sp != nil && r.EndT > pendingSince+sp.DemoteDur+50*ms {
			s.add(r.EndT, "promotion-never-delivered", "%s: the OnPromote of a term that was overtaken by its own OnDemote at %v has not been invoked by the end of the run (%v)", inst, pendingSince, r.EndT)
		}
	}
	return s.vs, nontrivial
}

// ---------------------------------------------------------------- C09

func stopTimeout(it *Item) time.Duration {
	if it.Do == "stop" {
		return 5 * time.Second
	}
	if it.Timeout > 0 {
		return it.Timeout
	}
	if it.CtxTimeout > 0 {
		return it.CtxTimeout
	}
	return 5 * time.Second
}

func itemOf(r *Result, name string) *Item {
	for i := range r.Scn.Script {
		if r.Scn.Script[i].name(i) == name {
			return &r.Scn.Script[i]
		}
	}
	return nil
}

func oracleC09(r *Result) ([]Violation, bool) {
	var s vset
	nontrivial := false
	type call struct {
		tCall time.Duration
		lead  bool
	}
	open := map[string]call{}
	// stop calls during which another mechanism's OnDemote ran: the instance was no
	// longer leader when the stop call sampled it (only distinguishable in fine mode)
	// ownEdge: the claim was cleared by the stop call itself (not by another mechanism
	// that demoted the instance after the call had been issued but before it sampled
	// the flag, which only fine mode can produce)
	ownEdge := map[string]bool{}
	closedCalls := map[string]bool{}
	lastLead := map[string]bool{}
	stopped := map[string]bool{} // stop returned nil, no Start call since
	tStop := map[string]time.Duration{}
	for _, e := range r.Trace {
		if e.K == "teardown" {
			// the harness aborts what is still in flight at the horizon; a stop call that
			// had not returned by then is judged by the no-return clause only
			break
		}
		switch e.K {
		case "api.call":
			if strings.HasPrefix(e.S, "stop") {
				open[e.S] = call{e.T, e.B}
			}
			if strings.HasPrefix(e.S, "start:") {
				stopped[e.I] = false
			}
		case "api.ret":
			if !strings.HasPrefix(e.S, "stop") {
				continue
			}
			c := open[e.S]
			closedCalls[e.S] = true
			it := itemOf(r, e.S)
			if it == nil {
				continue
			}
			nontrivial = true
			dur := e.T - c.tCall
			spec := r.Scn.inst(e.I)
			limit := stopTimeout(it)
			if it.Do == "stop" {
				limit += spec.DemoteDur
			}
			if dur > limit+ms {
				s.add(e.T, "stop-too-slow/"+it.Do, "%s: %s took %v (limit %v)", e.I, e.S, dur, limit)
			}
			if e.S2 == "nil" {
				stopped[e.I] = true
				tStop[e.I] = e.T
				if it.DeleteKey && c.lead && ownEdge[e.S] && e.Rec != nil && e.Rec.ID == e.I && e.Rec.By == e.I {
					s.add(e.T, "key-not-deleted", "%s: StopWithContext{DeleteKey} returned nil at %v while leader at the call, but its record rev %d is still live", e.I, e.T, e.Rec.Rev)
				}
			}
		case "gauge":
			if lastLead[e.I] && !e.B {
				for name := range open {
					if strings.Contains(name, ":"+e.I+"@") && !closedCalls[name] {
						ownEdge[name] = strings.HasPrefix(e.S2, "fire:stop") || strings.HasPrefix(e.S2, "run:api#")
					}
				}
			}
			lastLead[e.I] = e.B
			if stopped[e.I] && e.B {
				s.add(e.T, "leader-after-stop", "%s reports leadership at %v although its stop call returned at %v (step %s)", e.I, e.T, tStop[e.I], evKind(e.S2))
			}
		case "promote":
			if stopped[e.I] {
				s.add(e.T, "promote-after-stop", "%s: OnPromote invoked at %v after its stop call returned at %v", e.I, e.T, tStop[e.I])
			}
		case "op.issue":
			if stopped[e.I] {
				lab := e.Op
				if i := strings.Index(lab, "#"); i >= 0 {
					lab = lab[:i]
				}
				if j := strings.Index(lab, "."); j >= 0 {
					lab = lab[j+1:]
				}
				if !strings.HasSuffix(lab, "Rand") && !strings.HasSuffix(lab, "Health") {
					s.add(e.T, "store-op-after-stop/"+lab, "%s issued %s at %v after its stop call returned at %v", e.I, e.Op, e.T, tStop[e.I])
				}
			}
		case "q":
			for _, sn := range e.Snap {
				if sn.Blocked {
					if !sn.Fine {
						s.add(e.T, "status-blocked", "%s: Status() does not return at %v (election mutex held for ever)", sn.I, e.T)
					}
					continue
				}
				if !stopped[sn.I] {
					continue
				}
				if sn.IsLeader {
					s.add(e.T, "leader-after-stop", "%s reports leadership at %v although its stop call returned at %v", sn.I, e.T, tStop[sn.I])
				}
				if sn.WOpen > 0 && sn.Pend == 0 && !sn.Fine {
					s.add(e.T, "watcher-not-stopped-after-stop", "%s: %d watcher(s) handed out to the instance have not been stopped although its stop call returned at %v and nothing is in flight", sn.I, sn.WOpen, tStop[sn.I])
				}
				if sn.State != "STOPPED" {
					s.add(e.T, "state-after-stop/"+sn.State, "%s: Status().State is %s at %v after its stop call returned at %v", sn.I, sn.State, e.T, tStop[sn.I])
				}
			}
		}
	}
	for _, g := range r.Stuck {
		s.add(r.EndT, "goroutine-stuck/"+sigOfStack(g), "library goroutine still alive an hour after everything was cancelled and answered: %s", g)
	}
	for _, g := range r.PreStuck {
		s.add(r.EndT, "goroutine-alive-after-stop/"+sigOfStack(g), "every instance was stopped and nothing was in flight, yet a library goroutine is still alive at the horizon: %s", g)
	}
	if r.Spin != "" {
		s.add(r.EndT, "spin", "%s", r.Spin)
	}
	return s.vs, nontrivial
}

func sigOfStack(g string) string {
	if i := strings.Index(g, "] "); i >= 0 {
		g = g[i+2:]
	}
	parts := strings.Split(g, " < ")
	if len(parts) > 2 {
		parts = parts[:2]
	}
	return strings.Join(parts, "<")
}

// ---------------------------------------------------------------- C18

var docStates = map[string]bool{"INIT": true, "CANDIDATE": true, "LEADER": true, "FOLLOWER": true, "DEMOTED": true, "STOPPED": true}

func oracleC18(r *Result) ([]Violation, bool) {
	var s vset
	nontrivial := false
	stopped := map[string]bool{}
	lastTo := map[string]string{}
	afterStart := map[string]bool{}
	termTok := map[string]string{}
	opByID := map[string]*Op{}
	for _, op := range r.Ops {
		opByID[op.ID] = op
	}
	// ids read by periodic checks that were answered since the last quiescent point
	pcheckRead := map[string]string{}
	type staleT struct {
		t  time.Duration
		id string
	}
	staleSince := map[string]*staleT{}
	for _, e := range r.Trace {
		switch e.K {
		case "op.issue":
			if op := opByID[e.Op]; op != nil && op.Label == "pcheck" {
				delete(pcheckRead, op.Inst)
			}
		case "op.answer":
			if op := opByID[e.Op]; op != nil && op.Label == "pcheck" && op.Kind == "Get" && op.resErr == nil && op.ErrText == "" && op.Read != nil && !op.Read.Del {
				if rv := parseRec(op.Read); rv != nil && rv.ID != "" {
					pcheckRead[op.Inst] = rv.ID
				}
			}
		case "api.call":
			if strings.HasPrefix(e.S, "start:") {
				stopped[e.I] = false
			}
		case "api.ret":
			if strings.HasPrefix(e.S, "stop") && e.S2 == "nil" {
				stopped[e.I] = true
			}
			if strings.HasPrefix(e.S, "start:") && e.S2 == "nil" {
				afterStart[e.I] = true
			}
			if strings.HasPrefix(e.S, "status:") {
				// a Status() snapshot taken by a concurrent caller (fine-mode scenarios)
				f := strings.Split(e.S2, "|")
				if len(f) == 5 {
					nontrivial = true
					state, isL, lid, tok := f[0], f[1] == "true", f[2], f[3]
					if isL != (state == "LEADER") {
						s.add(e.T, fmt.Sprintf("isleader-vs-state/%v-%s", isL, state), "%s: a concurrent Status() call returned IsLeader=%v with State=%s", e.I, isL, state)
					}
					if isL {
						if lid != e.I {
							s.add(e.T, "leader-snapshot-leaderid", "%s: a concurrent Status() call of a leader returned LeaderID=%q", e.I, lid)
						}
						own := false
						for _, op := range r.Ops {
							if op.Inst == e.I && op.Wrote != nil && !op.Wrote.Del {
								if p, ok := parsePayload(op.Val); ok && p.Token == tok {
									own = true
								}
							}
						}
						if !own {
							s.add(e.T, "leader-snapshot-token", "%s: a concurrent Status() call of a leader returned token %q which the instance never wrote", e.I, tok)
						}
					}
				}
			}
		case "promote":
			termTok[e.I] = e.S
		case "transition":
			prev, ok := lastTo[e.I]
			if afterStart[e.I] {
				if e.S != "CANDIDATE" && !(ok && e.S == prev) {
					s.add(e.T, "transition-chain-broken/after-start", "%s: first transition after Start is %s->%s (previous to-state %q)", e.I, e.S, e.S2, prev)
				}
				afterStart[e.I] = false
			} else if ok && e.S != prev {
				s.add(e.T, "transition-chain-broken/"+prev+"->"+e.S, "%s: transition %s->%s follows a transition into %s", e.I, e.S, e.S2, prev)
			} else if !ok && e.S != "CANDIDATE" && e.S != "INIT" {
				s.add(e.T, "transition-chain-broken/first", "%s: first recorded transition is %s->%s", e.I, e.S, e.S2)
			}
			lastTo[e.I] = e.S2
		case "q":
			for _, sn := range e.Snap {
				if sn.Blocked {
					continue
				}
				nontrivial = true
				if sn.SIsLead != (sn.State == "LEADER") {
					s.add(e.T, fmt.Sprintf("isleader-vs-state/%v-%s", sn.SIsLead, sn.State), "%s: Status() at %v has IsLeader=%v but State=%s", sn.I, e.T, sn.SIsLead, sn.State)
				}
				if !docStates[sn.State] {
					s.add(e.T, "undocumented-state/"+sn.State, "%s: State=%q", sn.I, sn.State)
				}
				if sn.SIsLead && !sn.Cut {
					if sn.SLeader != sn.I {
						s.add(e.T, "leader-snapshot-leaderid", "%s: leader's Status().LeaderID is %q at %v", sn.I, sn.SLeader, e.T)
					}
					// (inside a fine window the callback goroutine of a term that has just begun
					// may still be parked in front of its OnPromote: the comparison with the latest
					// promotion token is made at quiescent points only)
					if tt := termTok[sn.I]; tt != "" && sn.SToken != tt && sn.NProm-sn.NDem == 1 && !sn.Fine {
						s.add(e.T, "leader-snapshot-token", "%s: leader's Status().Token is %s, term token %s", sn.I, sn.SToken, tt)
					}
					if sn.OwnRev != 0 && sn.SRev != sn.OwnRev && sn.Pend == 0 && !sn.Fine {
						s.add(e.T, "leader-snapshot-revision", "%s: leader's Status().Revision is %d at %v, its latest acknowledged write has revision %d", sn.I, sn.SRev, e.T, sn.OwnRev)
					}
				}
				if stopped[sn.I] && (sn.State != "STOPPED" || sn.SIsLead) {
					s.add(e.T, "after-stop/"+sn.State, "%s: after a returned stop Status() shows State=%s IsLeader=%v at %v", sn.I, sn.State, sn.SIsLead, e.T)
				}
				if sn.Gauge >= 0 && !sn.InStop && !sn.Fine && (sn.Gauge == 1) != sn.IsLeader {
					s.add(e.T, "gauge-differs", "%s: is-leader gauge is %d but IsLeader()=%v at %v", sn.I, sn.Gauge, sn.IsLeader, e.T)
				}
				// follower convergence through the periodic check: the check has just read a
				// record naming X, the live record still names X, the instance follows
				if id, ok := pcheckRead[sn.I]; ok {
					// judged once, at the first quiescent point after the read was answered: a
					// later reply of an older read may legitimately be processed afterwards
					delete(pcheckRead, sn.I)
					if rec := recOf(r, &e, sn.I); sn.Started && !sn.StopDone && !sn.InStop && !sn.IsLeader && !sn.Cut && !sn.Fine && rec != nil && rec.ID == id && sn.LeaderID != id {
						s.add(e.T, "follower-leaderid-stale/periodic-check", "%s: the periodic check has just read the live record naming %q, but the follower's LeaderID() is %q at %v", sn.I, id, sn.LeaderID, e.T)
					}
				}
				// follower convergence, whatever the mechanism: a running follower with nothing in
				// flight does not report a leader other than the one the (unchanged) live record
				// names for longer than three periodic-check intervals
				{
					rec := recOf(r, &e, sn.I)
					// (an operation of the instance that is in flight at this very snapshot - its
					// next poll, say - postpones the verdict to the next snapshot, it does not
					// restart the clock: a follower that lives on its periodic check has a read
					// in flight every 500 ms)
					mis := sn.Started && !sn.StopDone && !sn.InStop && !sn.StopFailed && !sn.CtxCancelled && !sn.IsLeader && !sn.Cut && !sn.Fine &&
						rec != nil && rec.ID != "" && rec.ID != sn.LeaderID
					st := staleSince[sn.I]
					switch {
					case !mis:
						delete(staleSince, sn.I)
					case st == nil || st.id != rec.ID:
						staleSince[sn.I] = &staleT{e.T, rec.ID}
					case sn.PendCur > 0:
					case e.T-st.t > 1500*ms+4*r.Scn.LatencyBound:
						s.add(e.T, "follower-leaderid-stale/not-converging", "%s: follower's LeaderID()=%q although the live record has named %q since %v at the latest (now %v) and nothing of the instance is in flight", sn.I, sn.LeaderID, rec.ID, st.t, e.T)
					}
				}
				// follower convergence
				if rec := recOf(r, &e, sn.I); sn.Started && !sn.StopDone && !sn.InStop && !sn.IsLeader && !sn.Cut && sn.WQ == 0 && sn.WDeliv > 0 && sn.Pend == 0 && rec != nil && rec.ID != "" && r.Scn.Tags["follower-convergence"] != "" {
					if sn.LeaderID != rec.ID {
						s.add(e.T, "follower-leaderid-stale", "%s: follower's LeaderID()=%q at %v but the live record rev %d names %q and no watch event is pending", sn.I, sn.LeaderID, e.T, rec.Rev, rec.ID)
					}
				}
			}
		}
	}
	return s.vs, nontrivial
}

// ---------------------------------------------------------------- C19

func oracleC19(r *Result) ([]Violation, bool) {
	var s vset
	type term struct {
		inst, tok string
		n         int
		done      bool
		tDone     time.Duration
	}
	var terms []*term
	nontrivial := false
	for _, e := range r.Trace {
		switch e.K {
		case "promote":
			terms = append(terms, &term{inst: e.I, tok: e.S, n: e.N})
			nontrivial = true
		case "promote.ctxdone":
			for _, t := range terms {
				if t.inst == e.I && t.n == e.N {
					t.done, t.tDone = true, e.T
				}
			}
		case "teardown":
			return s.vs, nontrivial
		case "q":
			for _, t := range terms {
				var sn *ISnap
				for i := range e.Snap {
					if e.Snap[i].I == t.inst {
						sn = &e.Snap[i]
					}
				}
				if sn == nil || sn.Cut || sn.Fine {
					continue
				}
				ended := !sn.IsLeader || sn.Token != t.tok
				if t.done && !ended {
					s.add(e.T, "context-cancelled-while-leading", "%s: the context of the term with token %s was cancelled at %v but the instance still leads that term at %v", t.inst, t.tok, t.tDone, e.T)
				}
				if ended && !t.done {
					s.add(e.T, "context-outlives-term", "%s: the term with token %s has ended (IsLeader=%v, Token=%s) at %v but its promotion context is not cancelled", t.inst, t.tok, sn.IsLeader, sn.Token, e.T)
				}
			}
		}
	}
	return s.vs, nontrivial
}

// curStep returns the name of the scheduler event during which trace event e was
// recorded (the choice made at the preceding quiescent point).
func curStep(r *Result, e Ev) string {
	qi := 0
	last := ""
	for _, x := range r.Trace {
		if x.K == "q" {
			if qi < len(r.Chosen) {
				last = r.Chosen[qi]
			}
			qi++
			continue
		}
		if x.T == e.T && x.K == e.K && x.I == e.I && x.S == e.S {
			return last
		}
	}
	return last
}
