package harness

import (
	"context"
	"encoding/json"
	"fmt"
	"strings"
	"time"

	"github.com/ali-assar/NATS-Leader-Election/leader"
	"github.com/nats-io/nats.go"
	"github.com/prometheus/client_golang/prometheus"
	"go.uber.org/zap"
)

// Ev is one record of the observation trace (DESIGN §2.6).
type Ev struct {
	T  time.Duration `json:"t"`
	K  string        `json:"k"`
	I  string        `json:"i,omitempty"`
	Op string        `json:"op,omitempty"`
	S  string        `json:"s,omitempty"`
	S2 string        `json:"s2,omitempty"`
	B  bool          `json:"b,omitempty"`
	N  int           `json:"n,omitempty"`

	Leaders []string            `json:"leaders,omitempty"` // instances with IsLeader()==true at this instant
	LTok    []string            `json:"ltok,omitempty"`    // their Token() at the same instant
	Rec     *RecView            `json:"rec,omitempty"`     // live record of the instance's group at this instant
	Snap    []ISnap             `json:"snap,omitempty"`    // quiescent snapshot
	Recs    map[string]*RecView `json:"recs,omitempty"`    // q: live record of every other group
}

type RecView struct {
	Rev   uint64        `json:"rev"`
	ID    string        `json:"id"`
	Token string        `json:"token"`
	Prio  int           `json:"prio"`
	By    string        `json:"by"`
	Raw   string        `json:"raw,omitempty"`
	At    time.Duration `json:"at,omitempty"` // when this revision was written
}

type ISnap struct {
	I            string `json:"i"`
	IsLeader     bool   `json:"l"`
	Token        string `json:"tok"`
	LeaderID     string `json:"lid"`
	State        string `json:"st"`
	SIsLead      bool   `json:"sl"`
	SToken       string `json:"stok"`
	SLeader      string `json:"slid"`
	SRev         uint64 `json:"srev"`
	Blocked      bool   `json:"blocked,omitempty"`       // Status() did not return
	PendCur      int    `json:"pend_cur,omitempty"`      // pending operations issued since the latest Start
	CtxCancelled bool   `json:"ctx_cancelled,omitempty"` // the context passed to Start has been cancelled
	StopFailed   bool   `json:"stop_failed,omitempty"`   // a shutdown was begun and returned an error: incomplete
	Fine         bool   `json:"fine,omitempty"`          // taken inside a fine-mode window (a goroutine may be parked inside a critical section)
	Gauge        int    `json:"g"`                       // last value of the is-leader gauge (-1 = never set)
	NProm        int    `json:"np"`
	NDem         int    `json:"nd"`
	InStop       bool   `json:"instop,omitempty"`
	StopDone     bool   `json:"stopdone,omitempty"`
	Started      bool   `json:"started,omitempty"`
	Cut          bool   `json:"cut,omitempty"`
	WQ           int    `json:"wq"`               // undelivered events of the instance's active watcher (-1: none active)
	WDeliv       int    `json:"wd"`               // events delivered to it
	Pend         int    `json:"pend"`             // pending gated ops of the instance
	OwnRev       uint64 `json:"ownrev,omitempty"` // revision of the instance's latest acknowledged successful write
	WOpen        int    `json:"wopen,omitempty"`  // watchers of the instance that were handed out and never stopped
}

type Term struct {
	Inst     string
	Token    string
	TStart   time.Duration
	ctx      context.Context
	CtxDone  bool
	TCtxDone time.Duration
}

type Inst struct {
	spec InstSpec
	w    *World
	el   leader.Election
	kv   *HKV
	conn *nats.Conn
	cfg  leader.ElectionConfig

	creating bool // a start item is inside NewElection right now

	created      bool
	started      bool
	crashed      bool
	partitioned  bool
	inStopCall   int
	stopDone     bool          // a stop call returned nil and no Start since
	lastStart    time.Duration // virtual time of the latest successful Start
	startCancel  context.CancelFunc
	ctxCancelled bool // the context passed to the latest Start has been cancelled by the script
	stopFailed   bool // a StopWithContext call returned an error (time-out, cancelled context) and no Start since

	gauge       int
	nProm       int
	nDem        int
	demoteGen   int
	mkDemote    func(gen int) func()
	demoteBody  func(gen int)
	terms       []*Term
	healthIdx   int
	lastObs     bool
	statusStuck bool
	notifyQ     chan string
}

func (in *Inst) cut() bool { return in.crashed || in.partitioned }

func (in *Inst) group() string {
	if in.spec.Group != "" {
		return in.spec.Group
	}
	return "g"
}

func parseRec(m *Msg) *RecView {
	if m == nil {
		return nil
	}
	rv := &RecView{Rev: m.Rev, By: m.By, At: m.At}
	var p struct {
		ID    string `json:"id"`
		Token string `json:"token"`
		Prio  int    `json:"priority"`
	}
	if json.Unmarshal(m.Val, &p) == nil {
		rv.ID, rv.Token, rv.Prio = p.ID, p.Token, p.Prio
	} else {
		rv.Raw = string(m.Val)
		if len(rv.Raw) > 40 {
			rv.Raw = rv.Raw[:40]
		}
	}
	return rv
}

// ---------------------------------------------------------------- metrics recorder

type recMetrics struct{ in *Inst }

func (m *recMetrics) SetIsLeader(v float64, _ prometheus.Labels) {
	in, w := m.in, m.in.w
	w.point("Metrics.SetIsLeader", m) // user callbacks are scheduling points too (fine mode)
	w.lock()
	in.gauge = int(v)
	ls, lt := w.leadersNow()
	w.ev(Ev{K: "gauge", I: in.spec.ID, B: v == 1, S2: w.curEvent, Leaders: ls, LTok: lt, Rec: parseRec(w.store.Live(in.group(), w.now()))})
	w.unlock()
}
func (m *recMetrics) SetConnectionStatus(v float64, _ prometheus.Labels) {
	m.in.w.evL(Ev{K: "connstatus", I: m.in.spec.ID, N: int(v)})
}
func (m *recMetrics) IncTransitions(l prometheus.Labels) {
	m.in.w.point("Metrics.IncTransitions", m)
	m.in.w.evL(Ev{K: "transition", I: m.in.spec.ID, S: l["from_state"], S2: l["to_state"]})
	if d := m.in.spec.SlowDemoteMetric; d > 0 && l["from_state"] == "LEADER" && l["to_state"] == "FOLLOWER" {
		time.Sleep(d) // a slow metrics backend (coarse scenarios only)
	}
}
func (m *recMetrics) IncFailures(prometheus.Labels)                             {}
func (m *recMetrics) IncAcquireAttempts(prometheus.Labels)                      {}
func (m *recMetrics) IncTokenValidationFailures(prometheus.Labels)              {}
func (m *recMetrics) ObserveHeartbeatDuration(time.Duration, prometheus.Labels) {}
func (m *recMetrics) ObserveLeaderDuration(time.Duration, prometheus.Labels)    {}

// leadersNow: IsLeader() of every live instance, sampled synchronously (atomic loads).
func (w *World) leadersNow() (ls []string, toks []string) {
	for _, id := range w.order {
		in := w.insts[id]
		if in.created && !in.crashed && in.el.IsLeader() {
			ls = append(ls, id)
			toks = append(toks, in.el.Token())
		}
	}
	return
}

// ---------------------------------------------------------------- logger (explanations only)

type recLogger struct{ in *Inst }

func (l *recLogger) log(level, msg string) {
	l.in.w.point("Logger."+msg, l) // a user-supplied logger is a scheduling point too (fine mode)
	if l.in.w.verbose {
		l.in.w.evL(Ev{K: "log", I: l.in.spec.ID, S: level + ":" + msg})
	}
}
func (l *recLogger) Debug(msg string, _ ...zap.Field) { l.log("D", msg) }
func (l *recLogger) Info(msg string, _ ...zap.Field)  { l.log("I", msg) }
func (l *recLogger) Warn(msg string, _ ...zap.Field)  { l.log("W", msg) }
func (l *recLogger) Error(msg string, _ ...zap.Field) { l.log("E", msg) }
func (l *recLogger) Fatal(msg string, _ ...zap.Field) { l.log("F", msg) }

// ---------------------------------------------------------------- health checker (a gate)

type gateHealth struct{ in *Inst }

func (h *gateHealth) Check(ctx context.Context) bool {
	op := &Op{Inst: h.in.spec.ID, Kind: "Health", Label: "hc", ctx: ctx}
	if dl, ok := ctx.Deadline(); ok {
		op.HasDl = true
		op.DlIn = time.Until(dl)
	}
	h.in.w.submit(op)
	if op.Fault == "slow" {
		<-ctx.Done()
		h.in.w.evL(Ev{K: "health.ret", I: h.in.spec.ID, S: "slow"})
		return false
	}
	return op.resB
}

// ---------------------------------------------------------------- construction

func (w *World) newInst(spec InstSpec) *Inst {
	in := &Inst{spec: spec, w: w, gauge: -1}
	in.kv = &HKV{w: w, inst: spec.ID}
	s := w.scn
	cfg := leader.ElectionConfig{
		Bucket:                 "b",
		Group:                  in.group(),
		InstanceID:             w.scn.cfgID(spec.ID),
		TTL:                    s.TTL,
		HeartbeatInterval:      s.H,
		ValidationInterval:     s.Validation,
		DisconnectGracePeriod:  spec.Grace,
		Priority:               spec.Priority,
		AllowPriorityTakeover:  spec.Takeover,
		MaxConsecutiveFailures: spec.MaxFail,
		Metrics:                &recMetrics{in},
		Logger:                 &recLogger{in},
	}
	if spec.HasHealth || len(spec.Health) > 0 {
		cfg.HealthChecker = &gateHealth{in}
	}
	in.cfg = cfg
	return in
}

func (in *Inst) create() error {
	var prov leader.JetStreamProvider
	if in.spec.Monitored {
		in.conn = &nats.Conn{}
		prov = &hConnProvider{hProvider{in.kv}, in.conn}
	} else {
		prov = &hProvider{in.kv}
	}
	el, err := leader.NewElection(prov, in.cfg)
	if err != nil {
		return err
	}
	in.el = el
	in.created = true
	w := in.w
	id := in.spec.ID
	el.OnPromote(func(ctx context.Context, token string) {
		// (recorded at the moment the library invokes the callback; the scheduling point
		// comes afterwards, otherwise a callback parked at its own entry would be logged
		// after a later one)
		w.lock()
		in.nProm++
		t := &Term{Inst: id, Token: token, TStart: w.now(), ctx: ctx}
		in.terms = append(in.terms, t)
		termNo := len(in.terms)
		ls, lt := w.leadersNow()
		w.ev(Ev{K: "promote", I: id, S: token, B: el.IsLeader(), N: termNo, Leaders: ls, LTok: lt, Rec: parseRec(w.store.Live(in.group(), w.now()))})
		w.unlock()
		w.point("OnPromote", in)
		w.signal()
		if in.spec.NoPromoteBlock {
			return
		}
		<-ctx.Done()
		w.lock()
		t.CtxDone, t.TCtxDone = true, w.now()
		w.ev(Ev{K: "promote.ctxdone", I: id, S: token, N: termNo})
		w.unlock()
		w.signal()
		if in.spec.PromoteLinger > 0 {
			// the application's clean-up after the cancellation takes this long
			time.Sleep(in.spec.PromoteLinger)
		}
	})
	in.mkDemote = func(gen int) func() {
		return func() { in.demoteBody(gen) }
	}
	in.demoteBody = func(gen int) {
		w.lock()
		if gen != in.demoteGen {
			// a callback the application has replaced since (script item "reregister")
			w.ev(Ev{K: "demote.stale", I: id})
			w.unlock()
			return
		}
		in.nDem++
		ls, lt := w.leadersNow()
		w.ev(Ev{K: "demote", I: id, B: el.IsLeader(), Leaders: ls, LTok: lt, Rec: parseRec(w.store.Live(in.group(), w.now()))})
		w.unlock()
		w.point("OnDemote", in)
		w.signal()
		if in.spec.DemoteDur > 0 {
			time.Sleep(in.spec.DemoteDur)
			// an application that takes its time in the callback and then looks at the
			// election (Status takes the election's read lock: whoever invoked the callback
			// must not be holding that mutex, a writer may have queued up meanwhile)
			_ = el.Status()
			w.evL(Ev{K: "demote.done", I: id})
		}
	}
	el.OnDemote(in.mkDemote(0))
	return nil
}

// ---------------------------------------------------------------- script actors

type actor struct {
	name string
	busy bool
}

func (it *Item) name(idx int) string {
	if it.Inst != "" {
		return fmt.Sprintf("%s:%s@%d", it.Do, it.Inst, idx)
	}
	return fmt.Sprintf("%s@%d", it.Do, idx)
}

// runItem executes one script item; API calls run in their own goroutine (they may block).
func (w *World) runItem(idx int) {
	it := &w.scn.Script[idx]
	name := it.name(idx)
	in := w.insts[it.Inst]
	switch it.Do {
	case "put":
		key := it.Key
		if key == "" {
			key = "g"
		}
		m := w.store.put(key, w.expandPayload(it.Payload, key), false, w.now(), "outside", name)
		w.fanout(m)
		w.ev(Ev{K: "outside.put", S: name})
		return
	case "delete":
		key := it.Key
		if key == "" {
			key = "g"
		}
		m := w.store.put(key, nil, true, w.now(), "outside", name)
		w.fanout(m)
		w.ev(Ev{K: "outside.delete", S: name})
		return
	case "expire":
		key := it.Key
		if key == "" {
			key = "g"
		}
		delete(w.store.Latest, key) // MaxAge removes the message silently: no tombstone, no watch event
		w.ev(Ev{K: "outside.expire", S: name})
		return
	case "crash":
		in.crashed = true
		w.ev(Ev{K: "crash", I: it.Inst})
		return
	case "partition":
		in.partitioned = true
		for _, p := range w.pending {
			if p.Inst == it.Inst && p.isStoreOp() && !p.Applied {
				p.NotBefore = w.now() + w.partTimeout()
			}
		}
		w.ev(Ev{K: "partition", I: it.Inst})
		return
	case "heal":
		in.partitioned = false
		w.ev(Ev{K: "heal", I: it.Inst})
		return
	case "disconnect", "reconnect", "closed":
		w.ev(Ev{K: "notify", I: it.Inst, S: it.Do})
		if in.notifyQ != nil {
			in.notifyQ <- it.Do
		}
		return
	case "closewatch":
		for _, hw := range w.watchers {
			if hw.Inst == it.Inst && !hw.stopped && !hw.closed {
				hw.closed = true
				hw.queue = nil
				close(hw.ch)
			}
		}
		w.ev(Ev{K: "closewatch", I: it.Inst})
		return
	}
	a := w.actor(it.Actor)
	a.busy = true
	w.ev(Ev{K: "api.call", I: it.Inst, S: name, B: in != nil && in.created && in.el.IsLeader()})
	go func() {
		w.mu.Lock()
		if w.apiNames == nil {
			w.apiNames = map[int]string{}
		}
		w.apiNames[curGID()] = it.Do
		w.mu.Unlock()
		res := w.callAPI(in, it)
		w.lock()
		a.busy = false
		w.ev(Ev{K: "api.ret", I: it.Inst, S: name, S2: res, Rec: parseRec(w.store.Live(in.group(), w.now()))})
		w.unlock()
		w.signal()
	}()
}

func (w *World) partTimeout() time.Duration {
	if w.scn.PartitionTimeout > 0 {
		return w.scn.PartitionTimeout
	}
	return 5 * time.Second
}

func (w *World) actor(name string) *actor {
	for _, a := range w.actors {
		if a.name == name {
			return a
		}
	}
	a := &actor{name: name}
	w.actors = append(w.actors, a)
	return a
}

func errStr(err error) string {
	if err == nil {
		return "nil"
	}
	return err.Error()
}

func (w *World) callAPI(in *Inst, it *Item) string {
	mkctx := func() (context.Context, context.CancelFunc) {
		switch {
		case it.CtxTimeout > 0:
			return context.WithTimeout(context.Background(), it.CtxTimeout)
		case it.CtxTimeout < -1:
			// no deadline, cancelled -CtxTimeout after the call was made
			c, cancel := context.WithCancel(context.Background())
			tm := time.AfterFunc(-it.CtxTimeout, cancel)
			return c, func() { tm.Stop(); cancel() }
		case it.CtxTimeout < 0:
			c, cancel := context.WithCancel(context.Background())
			cancel()
			return c, cancel
		}
		return context.WithCancel(context.Background())
	}
	if it.Do != "start" && !in.created {
		return "not-created"
	}
	switch it.Do {
	case "start":
		// (two script items may call start concurrently inside a fine window - the scripted
		// first start moved next to a manual one: the election object is created once, the
		// other caller has no object to call yet, like any item that precedes the creation)
		w.lock()
		mine := !in.created && !in.creating
		if mine {
			in.creating = true
		}
		busy := !in.created && !mine
		w.unlock()
		if busy {
			return "not-created"
		}
		if mine {
			if err := in.create(); err != nil {
				return "create:" + err.Error()
			}
		}
		// every run gets its own context (a child of the harness root), so that a script
		// item can cancel it: the documented way of stopping an election without Stop
		sctx, scancel := context.WithCancel(w.rootCtx)
		err := in.el.Start(sctx)
		w.lock()
		if err != nil {
			scancel() // not used: the running election keeps its own context
		} else {
			in.startCancel = scancel
			in.started = true
			in.lastStart = w.now()
			in.stopDone = false
			in.stopFailed = false
			in.ctxCancelled = false
			if in.spec.Monitored && in.notifyQ == nil {
				in.notifyQ = make(chan string, 64)
				go w.dispatcher(in)
			}
		}
		w.unlock()
		return errStr(err)
	case "cancelctx":
		// cancel the context that was passed to Start
		w.lock()
		in.ctxCancelled = true
		w.unlock()
		if in.startCancel != nil {
			in.startCancel()
		}
		return "nil"
	case "stop":
		w.lock()
		in.inStopCall++
		w.unlock()
		err := in.el.Stop()
		w.lock()
		in.inStopCall--
		if err == nil {
			in.stopDone = true
		}
		w.unlock()
		return errStr(err)
	case "stopctx":
		ctx, cancel := mkctx()
		defer cancel()
		w.lock()
		in.inStopCall++
		w.unlock()
		err := in.el.StopWithContext(ctx, leader.StopOptions{DeleteKey: it.DeleteKey, WaitForDemote: it.WaitForDemote, Timeout: it.Timeout})
		w.lock()
		in.inStopCall--
		if err == nil {
			in.stopDone = true
		} else if err != leader.ErrAlreadyStopped {
			// timed out or cancelled: the shutdown was begun and not completed
			in.stopFailed = true
		}
		w.unlock()
		return errStr(err)
	case "validate":
		ctx, cancel := mkctx()
		defer cancel()
		tok := in.el.Token()
		ok, err := in.el.ValidateToken(ctx)
		return fmt.Sprintf("%v|%s|tok=%s", ok, errStr(err), tok)
	case "validateOrDemote":
		ctx, cancel := mkctx()
		defer cancel()
		tok := in.el.Token()
		was := in.el.IsLeader()
		ok := in.el.ValidateTokenOrDemote(ctx)
		return fmt.Sprintf("%v|was=%v|now=%v|tok=%s", ok, was, in.el.IsLeader(), tok)
	case "reregister":
		// the application replaces its demotion callback while the election runs: from now
		// on the new one, and only the new one, is to be invoked
		w.lock()
		in.demoteGen++
		g := in.demoteGen
		w.unlock()
		in.el.OnDemote(in.mkDemote(g))
		return "nil"
	case "status":
		s := in.el.Status()
		return fmt.Sprintf("%s|%v|%s|%s|%d", s.State, s.IsLeader, s.LeaderID, s.Token, s.Revision)
	}
	return "unknown item " + it.Do
}

// dispatcher delivers connection notifications serially, in order, exactly as
// nats.go's asyncCBDispatcher does (two connection handlers never overlap).
func (w *World) dispatcher(in *Inst) {
	for {
		select {
		case <-w.rootCtx.Done():
			return
		case n := <-in.notifyQ:
			c := in.conn
			dcb, rcb, ccb := connHandlers(c)
			switch n {
			case "disconnect":
				if dcb != nil {
					dcb(c)
				}
			case "reconnect":
				if rcb != nil {
					rcb(c)
				}
			case "closed":
				if ccb != nil {
					ccb(c)
				}
			}
			w.evL(Ev{K: "notify.done", I: in.spec.ID, S: n})
			w.signal()
		}
	}
}

// expandPayload substitutes the $-macros of the payload alphabet: they refer to the
// latest record version written by a library instance under key.
func (w *World) expandPayload(p string, key string) []byte {
	if !strings.HasPrefix(p, "$") {
		return []byte(p)
	}
	var own []byte
	for i := len(w.store.Hist) - 1; i >= 0; i-- {
		m := w.store.Hist[i]
		if m.Key == key && !m.Del && m.By != "outside" {
			own = m.Val
			break
		}
	}
	pl, _ := parsePayload(own)
	switch p {
	case "$OWN":
		return append([]byte(nil), own...)
	case "$OWN_EXTRA_FIELD":
		return []byte(fmt.Sprintf(`{"id":%q,"token":%q,"priority":%d,"extra":{"a":[1,2,3]}}`, pl.ID, pl.Token, pl.Prio))
	case "$SAME_ID_OTHER_TOKEN":
		return []byte(fmt.Sprintf(`{"id":%q,"token":"not-the-token"}`, pl.ID))
	case "$OTHER_ID_SAME_TOKEN":
		return []byte(fmt.Sprintf(`{"id":"X","token":%q}`, pl.Token))
	case "$TOKEN_ONLY":
		return []byte(fmt.Sprintf(`{"token":%q}`, pl.Token))
	case "$ID_ONLY":
		return []byte(fmt.Sprintf(`{"id":%q}`, pl.ID))
	case "$CASE_VARIANT_KEYS":
		return []byte(fmt.Sprintf(`{"ID":%q,"Token":%q}`, pl.ID, pl.Token))
	case "$DUP_KEYS_LAST_OWN":
		return []byte(fmt.Sprintf(`{"id":"X","token":"zz","id":%q,"token":%q}`, pl.ID, pl.Token))
	case "$DUP_KEYS_LAST_OTHER":
		return []byte(fmt.Sprintf(`{"id":%q,"token":%q,"id":"X","token":"zz"}`, pl.ID, pl.Token))
	case "$TOKEN_AS_NUMBER":
		return []byte(fmt.Sprintf(`{"id":%q,"token":12345}`, pl.ID))
	case "$ID_AS_ARRAY":
		return []byte(fmt.Sprintf(`{"id":[%q],"token":%q}`, pl.ID, pl.Token))
	case "$NESTED":
		return []byte(fmt.Sprintf(`{"record":{"id":%q,"token":%q}}`, pl.ID, pl.Token))
	case "$TRUNCATED":
		if len(own) > 3 {
			return append([]byte(nil), own[:len(own)-3]...)
		}
	case "$OWN_TRAILING_GARBAGE":
		return append(append([]byte(nil), own...), []byte("}}")...)
	case "$OWN_HIGH_PRIORITY":
		return []byte(fmt.Sprintf(`{"id":"X","token":"tok-x","priority":9}`))
	case "$BIG":
		b := make([]byte, 1<<20)
		for i := range b {
			b[i] = 'x'
		}
		return b
	case "$BIG_JSON":
		return []byte(fmt.Sprintf(`{"id":%q,"token":%q,"pad":"%s"}`, pl.ID, pl.Token, strings.Repeat("y", 1<<20)))
	case "$INVALID_UTF8":
		return []byte{'{', '"', 'i', 'd', '"', ':', '"', 0xff, 0xfe, '"', '}'}
	}
	return []byte(p)
}
