package harness

import (
	"fmt"
	"strings"
	"time"
)

// Payload alphabet shared by C04 and C13 (DESIGN §5): every branch of validateToken,
// handleWatchEvent, checkKeyAndReelect and attemptPriorityTakeover is reached by one of them.
var payloadAlphabet = []string{
	"", " ", "null", "{}", "[]", "0", "-1", "3.14", "true", `""`, `"A"`, "nul", "{", `{"id":`, `{"id":"A"`,
	`{"id":"A","token":"t"}`, `{"id":"X","token":"t"}`, `{"id":"","token":""}`, `{"id":null,"token":null}`,
	`{"id":1,"token":2}`, `{"id":{},"token":[]}`, `{"id":"A","token":"t","priority":"high"}`, `{"id":"A","token":"t","priority":1e99}`,
	`{"id":"A","token":"t","priority":-5}`, `{"id":"X","token":"tok-x","priority":0}`, `{"id":"X","token":"tok-x","priority":1}`, `{"id":"X","token":"tok-x","priority":2}`,
	`{"id":"X","token":"tok-x","priority":9}`, `[{"id":"A","token":"t"}]`, `"{\"id\":\"A\"}"`, "\x00\x01\x02", "not json at all",
	"$OWN", "$OWN_EXTRA_FIELD", "$SAME_ID_OTHER_TOKEN", "$OTHER_ID_SAME_TOKEN", "$TOKEN_ONLY", "$ID_ONLY", "$CASE_VARIANT_KEYS",
	"$DUP_KEYS_LAST_OWN", "$DUP_KEYS_LAST_OTHER", "$TOKEN_AS_NUMBER", "$ID_AS_ARRAY", "$NESTED", "$TRUNCATED", "$OWN_TRAILING_GARBAGE",
	"$BIG", "$BIG_JSON", "$INVALID_UTF8",
}

func payloadName(p string) string {
	idx := -1
	for i, q := range payloadAlphabet {
		if q == p {
			idx = i
		}
	}
	return fmt.Sprintf("p%02d:%s", idx, payloadText(p))
}

func payloadText(p string) string {
	if strings.HasPrefix(p, "$") {
		return p[1:]
	}
	if len(p) > 24 {
		p = p[:24]
	}
	return fmt.Sprintf("%q", p)
}

// S-validate: A leads (B follows); an outside writer puts payload; an actor calls
// ValidateToken / ValidateTokenOrDemote on the chosen caller with the chosen context.
func scnValidate(payload string, caller string, method string, ctxv time.Duration, short bool) *Scenario {
	s := K1(&Scenario{Name: fmt.Sprintf("validate/%s/%s/%s/ctx%v", payloadName(payload), caller, method, ctxv)})
	s.Insts = insts("A", "B")
	s.Script = starts("A", "B")
	tPut := 1*s.H + 41*ms + 3*us
	tCall := 1*s.H + 43*ms + 5*us
	target := "A"
	switch caller {
	case "follower":
		target = "B"
	case "stopped":
		s.Script = append(s.Script, Item{At: tPut - 20*ms, Actor: "lifeA", Do: "stop", Inst: "A", Fixed: true})
	case "demoted":
		// demoted by health before the call
		s.Insts[0].Health = []string{"bad"}
		s.Insts[0].MaxFail = 1
		tPut += s.H
		tCall += s.H
	}
	if caller == "leader-before-tick" {
		// the call comes 40 ms before the leader's next heartbeat: a read that takes longer
		// than that (still < H/2) is answered after the heartbeat has met the outside record
		tPut, tCall = 2*s.H-42*ms+3*us, 2*s.H-40*ms+5*us
	}
	if payload != "<none>" {
		s.Script = append(s.Script, Item{At: tPut, Actor: "outside", Do: "put", Payload: payload})
	}
	s.Script = append(s.Script, Item{At: tCall, Actor: "caller", Do: method, Inst: target, CtxTimeout: ctxv})
	s.Horizon = tCall + 2*s.H + 50*ms
	s.LatencyBound = s.H/2 - ms
	s.DelayMenu = []time.Duration{s.H/2 - 2*ms}
	s.SplitApply = false
	s.MoveScript = true
	s.AllowErr = []string{"timeout"}
	s.AllowHang = true
	s.FaultLabels = []string{"validate"}
	s.DevFrom = s.H // deviations only around the call, not during the initial election
	if short {
		s.MoveScript = false
	}
	return s
}

func c04Plan(tier string) []PlanItem {
	var items []PlanItem
	// 0 = background, -1 = already cancelled, > 0 = deadline, < -1 = no deadline but
	// cancelled that long after the call
	ctxs := []time.Duration{0, -1, 50 * ms, 5000 * ms, -30 * ms}
	for _, p := range append([]string{"<none>"}, payloadAlphabet...) {
		for _, caller := range []string{"leader", "follower", "demoted", "stopped"} {
			for _, m := range []string{"validate", "validateOrDemote"} {
				for _, cv := range ctxs {
					d := 1
					// the full product at d=1 is the thorough tier; quick keeps d=1 for the
					// leader (where the race matters) and the default schedule elsewhere
					if tier != "thorough" && (caller != "leader" || (cv != 0 && cv != 50*ms && cv != -30*ms)) {
						d = 0
					}
					if tier == "thorough" && caller == "leader" && cv == 0 && (p == "$OWN" || p == "$SAME_ID_OTHER_TOKEN" || p == "<none>" || p == `{"id":"X","token":"tok-x","priority":0}`) {
						d = 2
					}
					items = append(items, PlanItem{scnValidate(p, caller, m, cv, false), d})
				}
			}
		}
		for _, m := range []string{"validate", "validateOrDemote"} {
			items = append(items, PlanItem{scnValidate(p, "leader-before-tick", m, 0, false), 1})
		}
	}
	// a call that lasts until its 5 s deadline (its read hangs): meanwhile the term the call
	// started in ends (the outside record is met by the next heartbeat) and, once that record
	// has lapsed, the instance leads a new term when the verdict is returned
	for _, p := range []string{`{"id":"X","token":"tok-x","priority":0}`, "", "$SAME_ID_OTHER_TOKEN", "not json at all"} {
		for _, m := range []string{"validate", "validateOrDemote"} {
			s := scnValidate(p, "leader", m, 5000*ms, true)
			s.Name += "/until-deadline"
			s.Horizon = 1*s.H + 43*ms + 5*us + 5000*ms + 3*s.H
			s.MaxSteps = 4000
			items = append(items, PlanItem{s, 1})
		}
	}
	return items
}

func init() {
	oracles["C04"] = oracleC04
	props["C04"] = &propDef{
		Level:  "exploration",
		Rule:   "product of payload alphabet (50 record shapes incl. own payload variants, wrong types, missing/duplicate/case-variant keys, truncated, 1 MiB, invalid UTF-8) x caller state {leader, follower, demoted, stopped} x {ValidateToken, ValidateTokenOrDemote} x context {background, cancelled, 50ms deadline, 5s deadline, no deadline but cancelled 30ms into the call}; on each, every execution with <= D deviations (position of the outside write and of the call at every choice point, read delayed up to H/2, read error, read hang past the deadline); plus calls that last until their 5s deadline while the caller's term ends and a new one begins; non-trivial = a validation call returned; distinct = distinct observation-trace hash",
		Assume: []string{"byte strings outside the alphabet are not decided", "the read's linearisation point is the instant the harness applies the Get"},
		Plan:   c04Plan,
	}
}

func oracleC04(r *Result) ([]Violation, bool) {
	var s vset
	nontrivial := false
	calls := map[string]Ev{}
	for idx, e := range r.Trace {
		if e.K == "api.call" && strings.HasPrefix(e.S, "validate") {
			calls[e.S] = e
		}
		if e.K != "api.ret" || !strings.HasPrefix(e.S, "validate") {
			continue
		}
		nontrivial = true
		call := calls[e.S]
		parts := strings.Split(e.S2, "|")
		verdict := parts[0] == "true"
		tok := ""
		for _, p := range parts {
			if strings.HasPrefix(p, "tok=") {
				tok = p[4:]
			}
		}
		// the validation reads issued by this instance during the call
		var reads []*Op
		for _, op := range r.Ops {
			if op.Inst == e.I && op.Label == "validate" && op.Kind == "Get" && op.TIssue >= call.T && op.TIssue <= e.T && op.gid != 0 {
				reads = append(reads, op)
			}
		}
		method := "ValidateToken"
		if strings.HasPrefix(e.S, "validateOrDemote") {
			method = "ValidateTokenOrDemote"
		}
		if verdict {
			// a context that was cancelled or had expired before the call returned
			if it := itemOf(r, e.S); it != nil {
				var doneAt time.Duration = -1
				switch {
				case it.CtxTimeout > 0:
					doneAt = call.T + it.CtxTimeout
				case it.CtxTimeout < -1:
					doneAt = call.T - it.CtxTimeout
				case it.CtxTimeout < 0:
					doneAt = call.T
				}
				if doneAt >= 0 && e.T > doneAt {
					s.add(e.T, "true-with-done-context/"+method, "%s: %s returned true at %v although its context was cancelled / had expired at %v", e.I, method, e.T, doneAt)
				}
			}
			ok := false
			why := "no validation read was applied during the call"
			for _, rd := range reads {
				if !rd.Applied || rd.Fault != "" || rd.Read == nil {
					why = fmt.Sprintf("the read %s returned no live record (fault=%q err=%q)", rd.ID, rd.Fault, rd.ErrText)
					continue
				}
				m := map[string]any{}
				if jsonUnmarshal(rd.Read.Val, &m) != nil {
					why = fmt.Sprintf("the record read (rev %d) is not a JSON object: %.40q", rd.Read.Rev, string(rd.Read.Val))
					continue
				}
				id, _ := m["id"].(string)
				tk, _ := m["token"].(string)
				if id == e.I && tk == tok && tok != "" {
					ok = true
				} else {
					why = fmt.Sprintf("the record read (rev %d) has id=%q token=%q, caller %s held token %q", rd.Read.Rev, id, tk, e.I, tok)
				}
			}
			if !call.B {
				ok = false
				why = "the caller did not report leadership at the call"
				// it may have become leader during the call; accept if a read confirms
				for _, rd := range reads {
					if rd.Read != nil {
						m := map[string]any{}
						if jsonUnmarshal(rd.Read.Val, &m) == nil {
							id, _ := m["id"].(string)
							tk, _ := m["token"].(string)
							if id == e.I && tk == tok && tok != "" {
								ok = true
							}
						}
					}
				}
			}
			if !ok {
				s.add(e.T, "true-without-confirming-read/"+method, "%s: %s returned true at %v but %s", e.I, method, e.T, why)
			}
		}
		if method == "ValidateTokenOrDemote" && !verdict {
			// at the next quiescent point: not leader; if it led at the call, OnDemote ran
			for k := idx + 1; k < len(r.Trace); k++ {
				q := r.Trace[k]
				if q.K != "q" {
					continue
				}
				for _, sn := range q.Snap {
					if sn.I != e.I {
						continue
					}
					if sn.IsLeader && !promotedBetween(r, e.I, idx, k) {
						s.add(q.T, "still-leader-after-negative-verdict", "%s: ValidateTokenOrDemote returned false at %v but IsLeader() is true afterwards", e.I, e.T)
					}
					if call.B && sn.NDem < sn.NProm && !sn.IsLeader {
						s.add(q.T, "no-ondemote-after-negative-verdict", "%s: ValidateTokenOrDemote returned false at %v for an instance that led at the call; OnDemote not invoked (promotions %d, demotions %d)", e.I, e.T, sn.NProm, sn.NDem)
					}
				}
				break
			}
		}
	}
	if r.Spin != "" {
		s.add(r.EndT, "spin", "%s", r.Spin)
	}
	for _, g := range r.Stuck {
		s.add(r.EndT, "goroutine-stuck/"+sigOfStack(g), "%s", g)
	}
	return s.vs, nontrivial
}

func promotedBetween(r *Result, inst string, a, b int) bool {
	for k := a; k <= b && k < len(r.Trace); k++ {
		if r.Trace[k].K == "promote" && r.Trace[k].I == inst {
			return true
		}
	}
	return false
}
