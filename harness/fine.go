package harness

import (
	"fmt"
	"runtime"
	"sort"
	"strings"
)

// Fine mode (DESIGN §2.4): inside a window of an execution every shimmed
// synchronisation operation (sync.Mutex/RWMutex/WaitGroup, sync/atomic) of the library
// is a scheduling point. Exactly one goroutine runs between two points; the default is
// to keep running the goroutine that ran last, any other choice is a preemption (one
// deviation).

type parkedG struct {
	name string
	kind string
	ch   chan struct{}
}

// fineLabel names the calling goroutine after the outermost library function on its
// stack (the function the goroutine was started for), which is stable across runs.
func fineLabel() string {
	var pcs [64]uintptr
	n := runtime.Callers(3, pcs[:])
	frames := runtime.CallersFrames(pcs[:n])
	outer := ""
	for {
		f, more := frames.Next()
		if i := strings.LastIndex(f.Function, leaderPkg); i >= 0 {
			outer = f.Function[i+len(leaderPkg):]
		} else if strings.Contains(f.Function, "harness.(*World).callAPI") {
			outer = "api"
		} else if strings.Contains(f.Function, "harness.(*World).dispatcher") {
			outer = "dispatcher"
		}
		if !more {
			break
		}
	}
	outer = strings.TrimPrefix(outer, "(*kvElection).")
	outer = strings.TrimPrefix(outer, "(*disconnectHandler).")
	for _, suf := range []string{".func", ".gowrap"} {
		if i := strings.Index(outer, suf); i > 0 {
			// keep the enclosing function and the closure index: becomeLeader.func1 (heartbeat) vs func2 (validation)
			rest := outer[i:]
			outer = outer[:i] + strings.SplitN(rest, ".", 3)[1]
			break
		}
	}
	if outer == "" {
		outer = "other"
	}
	return outer
}

func (w *World) point(kind string, obj any) {
	if !w.fineOn || w.harnessBusy || w.closing {
		return
	}
	gid := curGID()
	if w.muOwner.Load() == int64(gid) {
		return // harness code calling into the library while holding the harness lock
	}
	w.mu.Lock()
	if !w.fineOn || w.closing || w.helpers[gid] {
		w.mu.Unlock()
		return
	}
	name, ok := w.gnames[gid]
	if !ok {
		lab := fineLabel()
		if an, isAPI := w.apiNames[gid]; isAPI && lab == "api" {
			// several API calls can be in flight in one window: name the goroutine after
			// its script item, not after the order in which the goroutines got going
			lab = "api:" + an
		}
		w.glabels[lab]++
		name = fmt.Sprintf("%s#%d", lab, w.glabels[lab])
		w.gnames[gid] = name
	}
	w.finePts++
	if w.scn.FinePts > 0 && w.finePts > w.scn.FinePts {
		// window exhausted: stop parking, release everybody
		w.fineOn = false
		ps := w.parked
		w.parked = nil
		w.mu.Unlock()
		for _, p := range ps {
			close(p.ch)
		}
		return
	}
	pg := &parkedG{name: name, kind: kind, ch: make(chan struct{})}
	w.parked = append(w.parked, pg)
	w.mu.Unlock()
	w.signal()
	<-pg.ch
}

// fineEnabled: resuming a parked goroutine comes first; the coarse events remain
// available (answering an op while a goroutine could continue is a preemption too).
func (w *World) fineEnabled(def, alts []Event) []Event {
	ps := append([]*parkedG(nil), w.parked...)
	sort.SliceStable(ps, func(i, j int) bool { return ps[i].name < ps[j].name })
	var runs []Event
	var lastEv *Event
	// default: keep running the goroutine that ran last; if it cannot continue (blocked,
	// finished, or an environment event has just started a new one) the goroutine that
	// parked most recently
	pref := w.lastRun
	found := false
	for _, pg := range ps {
		if pg.name == pref {
			found = true
		}
	}
	if !found && len(w.parked) > 0 {
		pref = w.parked[len(w.parked)-1].name
	}
	for _, pg := range ps {
		pg := pg
		ev := Event{Name: "run:" + pg.name + "@" + pg.kind, tgt: "", run: func() {
			for i, q := range w.parked {
				if q == pg {
					w.parked = append(w.parked[:i:i], w.parked[i+1:]...)
					break
				}
			}
			w.lastRun = pg.name
			close(pg.ch)
		}}
		if pg.name == pref {
			e := ev
			lastEv = &e
		} else {
			runs = append(runs, ev)
		}
	}
	var out []Event
	if lastEv != nil {
		out = append(out, *lastEv)
	}
	out = append(out, runs...)
	out = append(out, def...)
	out = append(out, alts...)
	if len(out) == 0 || len(ps) == 0 {
		out = append(out, Event{Name: "time"})
	}
	return out
}

// maybeFine switches fine mode on when the designated script item fires.
func (w *World) maybeFine(idx int) {
	if w.scn.FineFrom == "" || w.fineUsed {
		return
	}
	it := &w.scn.Script[idx]
	if it.name(idx) == w.scn.FineFrom || fmt.Sprintf("%s:%s", it.Do, it.Inst) == w.scn.FineFrom {
		w.fineOn = true
		w.fineUsed = true
		w.gnames = map[int]string{}
		w.glabels = map[string]int{}
		w.ev(Ev{K: "fine.on", S: it.name(idx)})
	}
}

func (w *World) releaseParked() {
	w.mu.Lock()
	ps := w.parked
	w.parked = nil
	w.mu.Unlock()
	for _, p := range ps {
		close(p.ch)
	}
}
