package harness

// Fine mode (DESIGN §2.4): preemption at shimmed synchronisation operations.

type parkedG struct {
	gid  int
	kind string
	ch   chan struct{}
}

func (w *World) point(kind string, obj any) {
	if !w.fineOn || w.harnessBusy || w.closing {
		return
	}
}

func (w *World) fineEnabled(def, alts []Event) []Event { return append(def, alts...) }

func (w *World) maybeFine(idx int) {}

func (w *World) releaseParked() {}
