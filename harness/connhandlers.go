package harness

import (
	"reflect"
	"sync"
	"unsafe"

	"github.com/nats-io/nats.go"
)

// connHandlers reads the connection callbacks the library registered on the
// (unconnected) nats.Conn. nats.go guards Opts with the unexported nc.mu and has no
// getter for the deprecated DisconnectedCB the library uses, so the harness takes that
// very mutex (through its address) to stay race-free against a concurrent Start/Stop.
func connHandlers(nc *nats.Conn) (d, r, c nats.ConnHandler) {
	f := reflect.ValueOf(nc).Elem().FieldByName("mu")
	if f.IsValid() && f.Type() == reflect.TypeOf(sync.RWMutex{}) {
		mu := (*sync.RWMutex)(unsafe.Pointer(f.UnsafeAddr()))
		mu.RLock()
		defer mu.RUnlock()
	}
	return nc.Opts.DisconnectedCB, nc.Opts.ReconnectedCB, nc.Opts.ClosedCB
}
