package harness

import (
	"fmt"
	"strings"
	"time"
)

// C13: arbitrary record contents and outside interference never crash, hang or promote.

func scnTamper(payload, role, action string) *Scenario {
	s := K1(&Scenario{Name: fmt.Sprintf("tamper/%s/%s/%s", payloadName(payload), role, action)})
	switch role {
	case "plain":
		s.Insts = insts("A", "B")
	case "takeover1":
		s.Insts = []InstSpec{{ID: "A", Priority: 1}, {ID: "B", Priority: 1, Takeover: true}}
	case "takeover2":
		s.Insts = []InstSpec{{ID: "A", Priority: 1}, {ID: "B", Priority: 2, Takeover: true}}
	}
	s.Script = starts("A", "B")
	t := 1*s.H + 43*ms + 3*us
	if role == "lone" {
		// a single instance that followed an outside record first (so its watcher runs
		// while it leads) and is the only one that can fill a vacancy afterwards
		s.Insts = insts("A")
		s.Script = []Item{
			{At: 0, Actor: "outside0", Do: "put", Payload: `{"id":"Z","token":"tz","priority":0}`, Fixed: true},
			{At: 1 * ms, Actor: "startA", Do: "start", Inst: "A", Fixed: true},
			{At: 450 * ms, Actor: "outside0", Do: "delete", Fixed: true}, // A leads from 505 ms on
		}
		t = 505*ms + s.H + 43*ms + 3*us
		s.DevFrom = 505 * ms
	}
	switch action {
	case "put":
		s.Script = append(s.Script, Item{At: t, Actor: "outside", Do: "put", Payload: payload})
	case "delete":
		s.Script = append(s.Script, Item{At: t, Actor: "outside", Do: "delete"})
	case "put+delete":
		s.Script = append(s.Script, Item{At: t, Actor: "outside", Do: "put", Payload: payload}, Item{At: t + s.H/2 + 11*ms, Actor: "outside", Do: "delete"})
	}
	T := hbTimeout(s.H)
	s.Horizon = t + s.H + 2*T + s.TTL + 300*ms
	if role == "lone" {
		s.Horizon += 1500 * ms
	}
	s.MaxSteps = 1200
	s.LatencyBound = s.H/2 - ms
	s.DelayMenu = []time.Duration{s.H/2 - 2*ms}
	s.MoveScript = true
	s.Tags = map[string]string{"payload": payload}
	return s
}

func c13Plan(tier string) []PlanItem {
	var items []PlanItem
	d := 1
	for _, role := range []string{"plain", "takeover1", "takeover2", "lone"} {
		items = append(items, PlanItem{scnTamper("", role, "delete"), d})
		for _, p := range payloadAlphabet {
			dd := d
			if tier != "thorough" && (p == "$BIG" || p == "$BIG_JSON") {
				dd = 0 // 1 MiB values: default schedule only in the quick tier
			}
			items = append(items, PlanItem{scnTamper(p, role, "put"), dd})
			if tier == "thorough" {
				items = append(items, PlanItem{scnTamper(p, role, "put+delete"), dd})
			} else {
				items = append(items, PlanItem{scnTamper(p, role, "put+delete"), 0})
			}
		}
	}
	return items
}

func init() {
	oracles["C13"] = oracleC13
	props["C13"] = &propDef{
		Level:  "exploration",
		Rule:   "payload alphabet (50 shapes) x role set-up {plain follower/leader, takeover candidate with equal priority, takeover candidate with higher priority, a lone instance that leads with its watcher running} x outside action {put, delete, put then delete}, the action placed by the explorer at every choice point of the run (<= D deviations, plus latencies < H/2); oracle: no worker death, no zero-time operation storm (>64 store ops of one instance at one virtual instant), bounded goroutines, no stuck goroutine, every replacement of a live foreign record is a legitimate preemption of a parseable record, every promotion follows an acquisition write of the claimer, a leader whose record was rewritten or deleted is demoted within H+2T, the key is not left without a live record for more than TTL + 1 s at the end of the run; non-trivial = the outside action was applied",
		Assume: []string{"byte strings outside the alphabet are not decided", "stack exhaustion by unbounded recursion is observed through its operation storm (the spin guard ends the run before the Go stack limit)"},
		Plan:   c13Plan,
	}
}

func oracleC13(r *Result) ([]Violation, bool) {
	var s vset
	nontrivial := false
	H := r.Scn.H
	T := hbTimeout(H)
	if r.Spin != "" {
		lab := "unknown"
		if i := strings.Index(r.Spin, "(last "); i >= 0 {
			lab = strings.TrimSuffix(r.Spin[i+6:], ")")
			if j := strings.Index(lab, "#"); j >= 0 {
				lab = lab[:j]
			}
			if k := strings.Index(lab, "."); k >= 0 {
				lab = lab[k+1:]
			}
		}
		s.add(r.EndT, "zero-time-operation-storm/"+lab, "%s", r.Spin)
	}
	for _, g := range r.Stuck {
		s.add(r.EndT, "goroutine-stuck/"+sigOfStack(g), "library goroutine never ends: %s", g)
	}
	if lim := 40 + 40*len(r.Scn.Insts); r.MaxGor > lim {
		s.add(r.EndT, "goroutine-growth", "%d goroutines alive at a quiescent point (limit %d)", r.MaxGor, lim)
	}
	// outside changes
	type change struct {
		t   time.Duration
		idx int
	}
	var changes []change
	for idx, e := range r.Trace {
		if strings.HasPrefix(e.K, "outside.") {
			changes = append(changes, change{e.T, idx})
			nontrivial = true
		}
		if e.K == "q" {
			for _, sn := range e.Snap {
				if sn.Blocked {
					if !sn.Fine {
						s.add(e.T, "status-blocked", "%s: Status() does not return", sn.I)
					}
				}
			}
		}
	}
	// replacements of live foreign records
	acqTok := map[string]map[string]bool{}
	for _, op := range r.Ops {
		if !op.isStoreOp() || op.Wrote == nil || op.Wrote.Del {
			continue
		}
		if p, ok := parsePayload(op.Val); ok {
			if acqTok[op.Inst] == nil {
				acqTok[op.Inst] = map[string]bool{}
			}
			acqTok[op.Inst][p.Token] = true
		}
		if op.Kind != "Update" || !op.ReplacedLive {
			continue
		}
		cur := op.Replaced
		cp, cok := parsePayload(cur.Val)
		if cur.By == op.Inst {
			continue
		}
		spec := r.Scn.inst(op.Inst)
		switch {
		case !cok:
			s.add(op.TApply, "replaced-unparsable-live-record/"+op.Label, "%s replaced the live record rev %d written by %s whose value is not a leadership payload (%.40q)", op.Inst, cur.Rev, cur.By, string(cur.Val))
		case !spec.Takeover || spec.Priority <= cp.Prio:
			s.add(op.TApply, "replaced-foreign-live-record/"+op.Label, "%s (takeover=%v priority=%d) replaced the live record rev %d written by %s (payload %.60q)", op.Inst, spec.Takeover, spec.Priority, cur.Rev, cur.By, string(cur.Val))
		}
	}
	for _, e := range r.Trace {
		if e.K == "promote" && !acqTok[e.I][e.S] {
			s.add(e.T, "promotion-without-own-write", "%s was promoted with token %s which it never wrote", e.I, e.S)
		}
	}
	// a leader whose record was rewritten / deleted is demoted within H + 2T
	for _, ch := range changes {
		// who led right before the change (last q before it), with its own record live
		var leader string
		for k := ch.idx - 1; k >= 0; k-- {
			e := r.Trace[k]
			if e.K == "q" {
				for _, sn := range e.Snap {
					if sn.IsLeader && e.Rec != nil && e.Rec.ID == sn.I && e.Rec.By == sn.I {
						leader = sn.I
					}
				}
				break
			}
		}
		if leader == "" {
			continue
		}
		limit := ch.t + H + 2*T + ms
		if limit > r.EndT {
			continue
		}
		// demoted (some observation with leader false) in (ch.t, limit], or re-promoted legitimately
		demoted := false
		for k := ch.idx; k < len(r.Trace); k++ {
			e := r.Trace[k]
			if e.T > limit {
				break
			}
			if e.K == "gauge" && e.I == leader && !e.B {
				demoted = true
			}
		}
		if !demoted {
			s.add(limit, "tampered-leader-not-demoted", "%s led when an outside party changed its record at %v and still had not stepped down by %v (H+2T)", leader, ch.t, limit)
		}
	}
	// still responding: when the run ends, the key has not been without a live record for
	// more than a second while a started, non-stopped, connected instance exists (500 ms
	// periodic check + 100 ms jitter + 4 x 100 ms of injected latency at most)
	{
		var lastLive time.Duration = -1
		vacantSince := time.Duration(-1)
		for _, e := range r.Trace {
			if e.K != "q" {
				continue
			}
			if e.Rec != nil {
				lastLive, vacantSince = e.T, -1
			} else if vacantSince < 0 {
				vacantSince = e.T
				if lastLive >= 0 && r.Scn.TTL > 0 {
					// nothing happened since the previous snapshot but the passage of time
					vacantSince = lastLive
				}
			}
		}
		if vacantSince >= 0 && r.EndT-vacantSince > r.Scn.TTL+time.Second {
			cand := ""
			for i := len(r.Trace) - 1; i >= 0; i-- {
				if e := r.Trace[i]; e.K == "q" {
					for _, sn := range e.Snap {
						if sn.Started && !sn.StopDone && !sn.InStop && !sn.Cut {
							cand = sn.I
						}
					}
					break
				}
			}
			if cand != "" {
				s.add(r.EndT, "stopped-responding/vacancy-not-refilled", "no live record since %v at the latest (run ends at %v) although %s is started, connected and not stopped", vacantSince+r.Scn.TTL, r.EndT, cand)
			}
		}
	}
	return s.vs, nontrivial
}
