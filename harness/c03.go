package harness

import (
	"fmt"
	"strings"
	"time"
)

// C03: a deposed or cut-off leader stops claiming within a bounded time.

func hbTimeout(h time.Duration) time.Duration {
	t := h / 2
	if t < time.Second {
		t = time.Second
	}
	return t
}

var c03Kinds = []string{"err:timeout", "err:noresp", "err:closed", "hang", "lost", "lateack", "partition", "replaced", "deleted", "expired"}

func scnHBFault(kname string, k kfn, i int, kind string) *Scenario {
	s := k(&Scenario{Name: fmt.Sprintf("hbfault/%s/attempt%d/%s", kname, i, kind)})
	s.Insts = insts("A")
	s.Script = starts("A")
	T := hbTimeout(s.H)
	tFault := 1*ms + time.Duration(i-1)*s.H + s.H/2 + 7*us
	s.Tags = map[string]string{"c03": "unreachable", "kind": kind}
	switch kind {
	case "replaced":
		s.Script = append(s.Script, Item{At: tFault, Actor: "outside", Do: "put", Payload: `{"id":"X","token":"tok-x","priority":0}`})
		s.Tags["c03"] = "change"
	case "deleted":
		s.Script = append(s.Script, Item{At: tFault, Actor: "outside", Do: "delete"})
		s.Tags["c03"] = "change"
	case "expired":
		s.Script = append(s.Script, Item{At: tFault, Actor: "outside", Do: "expire"})
		s.Tags["c03"] = "change"
	case "partition":
		s.Script = append(s.Script, Item{At: tFault, Actor: "chaos", Do: "partition", Inst: "A"})
		s.PartitionTimeout = 5 * time.Second
	default:
		s.Fault = &FaultSpec{Inst: "A", FromN: i, Mode: kind}
	}
	s.Horizon = tFault + 4*s.H + 4*T
	s.MaxSteps = 1500
	s.DelayMenu = []time.Duration{s.H/2 - 2*ms}
	s.LatencyBound = s.H/2 - ms
	s.RandMenu = nil
	s.MoveScript = s.Tags["c03"] == "change"
	s.NoTimeDev = false
	return s
}

// scnHBFaultSlowDemote: as hbfault, but the OnDemote callback takes 300 ms, during
// which the instance (alone in the group) re-acquires the vacant key; the rest of the run
// watches the second term.
func scnHBFaultSlowDemote(kname string, k kfn, i int, kind string) *Scenario {
	s := scnHBFault(kname, k, i, kind)
	s.Name += "/slow-ondemote"
	s.Insts[0].DemoteDur = 300 * ms
	s.Horizon += s.TTL + s.H
	return s
}

func c03Plan(tier string) []PlanItem {
	d := 1
	if tier == "thorough" {
		d = 2
	}
	var items []PlanItem
	ks := []struct {
		n string
		k kfn
	}{{"K1", K1}, {"K2", K2}, {"K3", K3}}
	for _, kk := range ks {
		for i := 1; i <= 5; i++ {
			for _, kind := range c03Kinds {
				dd := d
				if kk.n == "K3" && tier != "thorough" {
					dd = 0
				}
				items = append(items, PlanItem{scnHBFault(kk.n, kk.k, i, kind), dd})
				// the store refuses or swallows writes but still answers reads (the periodic
				// token validation keeps succeeding in the middle of the failure streak)
				if (kind == "err:timeout" || kind == "hang" || kind == "lost") && kk.n != "K3" {
					w := scnHBFault(kk.n, kk.k, i, kind)
					w.Name += "/writes-only"
					w.Fault.WritesOnly = true
					items = append(items, PlanItem{w, dd})
				}
				if (kind == "deleted" || kind == "expired") && kk.n != "K3" && i <= 2 {
					items = append(items, PlanItem{scnHBFaultSlowDemote(kk.n, kk.k, i, kind), dd})
				}
			}
		}
	}
	return items
}

func init() {
	oracles["C03"] = oracleC03
	props["C03"] = &propDef{
		Level:  "fault_enumeration",
		Rule:   "fault position x fault kind x timing configuration: the fault begins at heartbeat attempt i in 1..5; kinds = immediate error (nats timeout / no responders / connection closed), hang until the library's time-out, write applied but acknowledgement lost, write applied and acknowledged 30 ms after the time-out with a hanging store afterwards, the error / hang / lost-acknowledgement kinds again with reads still answered (writes-only outage), permanent partition, record replaced by another id, record deleted, record expired; configurations K1 (H=200ms,TTL=600ms), K2 (200ms,1s), K3 (4s,12s: time-out H/2); on top of each, every execution with <= D latency/placement deviations; non-trivial = the leader was demoted after the fault; distinct = distinct observation-trace hash",
		Assume: []string{"single leader, no competing instance (a competitor only adds earlier causes of demotion)", "reference store returns the real NATS error values"},
		Plan:   c03Plan,
	}
}

func oracleC03(r *Result) ([]Violation, bool) {
	var s vset
	H := r.Scn.H
	T := hbTimeout(H)
	kind := r.Scn.Tags["kind"]
	// promotion and demotion of A
	var tProm, tDem, tOnDem time.Duration = -1, -1, -1
	lead := false
	for _, e := range r.Trace {
		switch e.K {
		case "gauge":
			if e.I == "A" {
				if e.B && !lead && tProm < 0 {
					tProm = e.T
				}
				if !e.B && lead && tDem < 0 {
					tDem = e.T
				}
				lead = e.B
			}
		case "demote":
			if e.I == "A" && tOnDem < 0 {
				tOnDem = e.T
			}
		}
	}
	if tProm < 0 {
		return nil, false
	}
	var hb []*Op
	for _, op := range r.Ops {
		if op.Inst == "A" && op.Label == "hb" && op.Kind == "Update" {
			hb = append(hb, op)
		}
	}
	completion := func(op *Op) time.Duration {
		c := op.TIssue + T
		if op.Answered && op.Fault != "closed" && op.TAnswer < c {
			c = op.TAnswer
		}
		return c
	}
	check := func(limit time.Duration, why string, sig string) {
		if limit > r.EndT {
			return // horizon too short to decide
		}
		if tDem < 0 || tDem > limit {
			s.add(limit, sig+"/still-leader", "%s: A still reports leadership after %v (%s); demotion edge at %v", kind, limit, why, tDem)
		} else if tOnDem < 0 || tOnDem > limit {
			s.add(limit, sig+"/ondemote-late", "%s: OnDemote had not run by %v (%s); it ran at %v", kind, limit, why, tOnDem)
		}
	}
	// general clause, every term: an instance does not keep claiming for longer than
	// H + 2T while the group's live record is absent or somebody else's
	{
		var since time.Duration = -1
		var prevT, prevExp time.Duration = -1, -1 // previous snapshot, and the expiry of A's record seen there
		for _, e := range r.Trace {
			if e.K != "q" {
				continue
			}
			claiming := false
			for _, sn := range e.Snap {
				if sn.I == "A" && sn.IsLeader && !sn.Cut {
					claiming = true
				}
			}
			backed := e.Rec != nil && e.Rec.ID == "A" && e.Rec.By == "A"
			if claiming && !backed {
				if since < 0 {
					since = e.T
					// nothing happened between the previous snapshot and this one except the
					// passage of time: the record seen there lapsed at its expiry
					if prevExp >= prevT && prevExp <= e.T && prevT >= 0 {
						since = prevExp
					}
				}
				if e.T-since > H+2*T+ms {
					s.add(e.T, "claim-outlives-record", "%s: A has been reporting leadership since %v without a live record of its own (now %v, bound H+2T = %v)", kind, since, e.T, H+2*T)
					break
				}
			} else {
				since = -1
			}
			prevT, prevExp = e.T, -1
			if backed && r.Scn.TTL > 0 {
				prevExp = e.Rec.At + r.Scn.TTL
			}
		}
	}
	if r.Scn.Tags["c03"] == "change" {
		tChange := time.Duration(-1)
		promoted := false
		for _, e := range r.Trace {
			if e.K == "gauge" && e.I == "A" && e.B {
				promoted = true
			}
			if strings.HasPrefix(e.K, "outside.") {
				if !promoted {
					return nil, false // the change hit nothing: A did not lead yet
				}
				tChange = e.T
				break
			}
		}
		if tChange < 0 || (tDem >= 0 && tDem < tChange) {
			return nil, false
		}
		var next *Op
		for _, op := range hb {
			if op.Applied && (op.TApply > tChange) {
				next = op
				break
			}
			if op.Applied && op.TApply == tChange {
				// same instant: decide by the order of application in the store log
				if op.Wrote == nil && op.resErr != nil {
					next = op
					break
				}
			}
		}
		if next != nil {
			check(completion(next), fmt.Sprintf("completion of the next heartbeat attempt %s after the change at %v", next.ID, tChange), "change/"+kind+"/next-attempt")
		}
		check(tChange+H+2*T, fmt.Sprintf("change at %v + H + 2T", tChange), "change/"+kind+"/time-bound")
		return s.vs, tDem >= 0
	}
	// unreachable kinds: the last successful refresh and the failed attempts after it
	tStart := tProm
	lastOK := -1
	for i, op := range hb {
		// (an acknowledgement scripted to be late that the explorer delivered in time
		// after all is an ordinary success)
		if op.Answered && op.resErr == nil && (op.Fault == "" || (op.Fault == "lateack" && op.TAnswer <= op.TIssue+T)) {
			tStart = op.TIssue
			lastOK = i
		}
	}
	var failed []*Op
	for i := lastOK + 1; i < len(hb); i++ {
		failed = append(failed, hb[i])
	}
	if len(failed) >= 3 {
		check(completion(failed[2]), fmt.Sprintf("completion of the third consecutive failed attempt %s", failed[2].ID), "unreachable/"+kind+"/third-attempt")
	}
	if len(failed) > 0 {
		check(tStart+3*H+3*T, fmt.Sprintf("3H+3T after the start of the last successful refresh at %v", tStart), "unreachable/"+kind+"/time-bound")
	}
	return s.vs, tDem >= 0
}
