package harness

import (
	"context"
	"fmt"
	"hash/fnv"
	"math"
	"os"
	"runtime"
	"runtime/debug"
	"sort"
	"strings"
	"testing"
	"testing/synctest"
	"time"

	"github.com/ali-assar/NATS-Leader-Election/verifshim/rt"
	"github.com/nats-io/nats.go"
)

// Result of one execution.
type Result struct {
	Scn      *Scenario     `json:"scenario"`
	Prefix   []string      `json:"prefix"`
	Chosen   []string      `json:"chosen"`
	Alts     [][]string    `json:"-"` // per choice point: enabled event names, [0] is the default
	Diverged string        `json:"diverged,omitempty"`
	Steps    int           `json:"steps"`
	EndT     time.Duration `json:"end_t"`

	Trace []Ev    `json:"trace,omitempty"`
	Ops   []*Op   `json:"ops,omitempty"`
	Hist  []*Msg  `json:"-"`
	Terms []*Term `json:"-"`

	Stuck          []string `json:"stuck,omitempty"`     // library goroutines that did not end after teardown
	PreStuck       []string `json:"pre_stuck,omitempty"` // library goroutines alive at the horizon although every instance was stopped
	Spin           string   `json:"spin,omitempty"`
	FPs            []uint64 `json:"-"`
	Hash           uint64   `json:"hash"`
	MaxGor         int      `json:"max_goroutines"`
	BubbleDeadlock bool     `json:"bubble_deadlock,omitempty"`
	w              *World
}

type chooser struct {
	prefix   []string
	pos      int
	chosen   []string
	alts     [][]string
	diverged string
}

func (c *chooser) choose(evs []Event) int {
	names := make([]string, len(evs))
	for i, e := range evs {
		names[i] = e.Name
	}
	c.alts = append(c.alts, names)
	idx := 0
	if c.pos < len(c.prefix) {
		want := c.prefix[c.pos]
		idx = -1
		for i, n := range names {
			if n == want {
				idx = i
				break
			}
		}
		if idx < 0 {
			c.diverged = fmt.Sprintf("step %d: event %q not enabled (enabled: %v)", c.pos, want, names)
			return -1
		}
	}
	c.pos++
	c.chosen = append(c.chosen, names[idx])
	return idx
}

var floatMax = math.Nextafter(1, 0)

func fmtF(f float64) string {
	switch {
	case f == 0:
		return "0"
	case f >= floatMax:
		return "max"
	}
	return fmt.Sprintf("%g", f)
}

func errKind(kind string) error {
	switch kind {
	case "timeout":
		return nats.ErrTimeout
	case "noresp":
		return nats.ErrNoResponders
	case "closed":
		return nats.ErrConnectionClosed
	}
	return fmt.Errorf("injected: %s", kind)
}

func (w *World) devAllowed(inst string) bool {
	s := w.scn
	now := w.now()
	if s.DevFrom > 0 && now < s.DevFrom {
		return false
	}
	if s.DevUntil > 0 && now > s.DevUntil {
		return false
	}
	if len(s.OnlyInst) > 0 && inst != "" {
		for _, x := range s.OnlyInst {
			if x == inst {
				return true
			}
		}
		return false
	}
	return true
}

// enabled builds the canonical list of enabled events; [0] is the default environment.
func (w *World) enabled() []Event {
	s := w.scn
	now := w.now()
	var def []Event // candidates for default, in priority order
	var alts []Event

	// --- script items
	nextIdx := map[string]int{}
	for i := range s.Script {
		it := &s.Script[i]
		if w.fired[i] || it.Manual {
			continue
		}
		if _, seen := nextIdx[it.Actor]; seen {
			continue // only the first unfired item of each actor
		}
		nextIdx[it.Actor] = i
		a := w.actor(it.Actor)
		if a.busy {
			continue
		}
		idx := i
		ev := Event{Name: "fire:" + it.name(i), tgt: it.Inst, run: func() { w.fired[idx] = true; w.maybeFine(idx); w.lastRun = ""; w.runItem(idx) }}
		if it.At <= now {
			def = append(def, ev)
		} else if s.MoveScript && !it.Fixed && w.devAllowed("") {
			alts = append(alts, ev)
		}
	}

	// --- pending ops
	overdue := false
	for _, op := range w.sortedPending() {
		op := op
		in := w.insts[op.Inst]
		if in != nil && in.crashed {
			continue
		}
		switch op.Kind {
		case "Rand":
			mk := func(f float64) Event {
				return Event{Name: "rnd:" + op.ID + "=" + fmtF(f), tgt: op.Inst, run: func() { op.resF = f; op.Applied = true; w.answer(op) }}
			}
			def = append(def, mk(0.5))
			overdue = true // a random draw takes no time: it is answered before time passes
			if w.devAllowed(op.Inst) {
				for _, f := range s.RandMenu {
					alts = append(alts, mk(f))
				}
			}
			continue
		case "Health":
			mk := func(r string) Event {
				return Event{Name: "hc:" + op.ID + "=" + r, tgt: op.Inst, run: func() {
					op.Applied = true
					op.S(r)
					w.ev(Ev{K: "health", I: op.Inst, S: r, N: in.healthIdx, B: op.HasDl, S2: op.DlIn.String()})
					in.healthIdx++
					w.answer(op)
				}}
			}
			want := "ok"
			if h := in.spec.Health; len(h) > 0 {
				if in.healthIdx < len(h) {
					want = h[in.healthIdx]
				} else {
					want = h[len(h)-1]
				}
			}
			if want == "late" || want == "late150" {
				// a check that takes 50 ms (150 ms: longer than the deadline of the context
				// it is given, which it ignores) and then reports healthy
				if op.NotBefore == 0 {
					op.NotBefore = op.TIssue + 50*ms
					if want == "late150" {
						op.NotBefore = op.TIssue + 150*ms
					}
				}
				if op.NotBefore <= now {
					def = append(def, mk("ok"))
				}
				continue
			}
			def = append(def, mk(want))
			continue
		}
		cut := in != nil && in.partitioned
		if cut {
			if op.Applied {
				// applied before the partition: the answer is lost
				if op.NotBefore <= now {
					def = append(def, Event{Name: "lost:" + op.ID, tgt: op.Inst, run: func() {
						op.Fault = "lost"
						op.resErr = nats.ErrTimeout
						op.resEnt = nil
						op.resW = nil
						op.ResRev = 0
						w.answer(op)
					}})
				}
				continue
			}
			if op.NotBefore == 0 {
				op.NotBefore = op.TIssue + w.partTimeout()
			}
			if op.NotBefore <= now {
				def = append(def, Event{Name: "err:" + op.ID + ":timeout", tgt: op.Inst, run: func() { op.Fault = "err:timeout"; op.resErr = nats.ErrTimeout; w.answer(op) }})
			}
			continue
		}
		if op.Kind == "Watch" && !op.Applied {
			broken := false
			for _, id := range s.WatchBroken {
				if id == op.Inst {
					broken = true
				}
			}
			if broken {
				def = append(def, Event{Name: "err:" + op.ID + ":timeout", tgt: op.Inst, run: func() { op.Fault = "err:timeout"; op.resErr = nats.ErrTimeout; w.answer(op) }})
				continue
			}
		}
		if f := s.Fault; f != nil && op.Inst == f.Inst && !op.Applied && w.opCount[f.Inst+".hb.Update"] >= f.FromN && (op.Label != "hb" || op.Kind != "Update" || opSeq(op) >= f.FromN) && (!f.WritesOnly || op.Kind != "Get") && (!f.Once || (op.Label == "hb" && op.Kind == "Update" && opSeq(op) == f.FromN)) {
			op.Deadline = 0
			lateFirst := f.Mode == "lateack" && op.Label == "hb" && op.Kind == "Update" && opSeq(op) == f.FromN
			switch {
			case lateFirst:
				// applied at once, acknowledged (successfully) 30 ms after the library has
				// given up waiting; everything issued afterwards hangs
				w.apply(op)
				op.Fault = "lateack"
				op.NotBefore = op.TIssue + hbTimeout(s.H) + 30*ms
			case f.Mode == "hang" || f.Mode == "lateack":
				if op.Fault == "" {
					op.Fault = "hang"
				}
				continue
			case f.Mode == "lost" && (op.Kind == "Update" || op.Kind == "Create" || op.Kind == "Delete"):
				def = append(def, Event{Name: "lose:" + op.ID, tgt: op.Inst, run: func() {
					w.apply(op)
					op.Fault = "lost"
					op.resErr = nats.ErrTimeout
					op.ResRev = 0
					w.answer(op)
				}})
				continue
			default:
				k := strings.TrimPrefix(f.Mode, "err:")
				if f.Mode == "lost" {
					k = "timeout"
				}
				def = append(def, Event{Name: "err:" + op.ID + ":" + k, tgt: op.Inst, run: func() { op.Fault = "err:" + k; op.resErr = errKind(k); w.answer(op) }})
				continue
			}
		}
		if op.Deadline > 0 && op.Deadline <= now {
			overdue = true
		}
		okEv := Event{Name: "ok:" + op.ID, tgt: op.Inst, run: func() { w.apply(op); w.answer(op) }}
		if op.Applied {
			okEv = Event{Name: "ret:" + op.ID, tgt: op.Inst, run: func() { w.answer(op) }}
		}
		if op.NotBefore == math.MaxInt64 {
			continue // hung for ever: nothing more is offered for it
		}
		if op.NotBefore <= now {
			def = append(def, okEv)
		} else if w.devAllowed(op.Inst) {
			alts = append(alts, okEv)
		}
		if !w.devAllowed(op.Inst) {
			continue
		}
		faultOK := len(s.FaultLabels) == 0
		for _, l := range s.FaultLabels {
			if l == op.Label {
				faultOK = true
			}
		}
		if !op.Applied {
			if s.SplitApply && op.Kind != "Watch" {
				alts = append(alts, Event{Name: "apply:" + op.ID, tgt: op.Inst, run: func() { w.apply(op) }})
				// reply latency: the store applies the operation now, the reply arrives L later
				for _, L := range s.DelayMenu {
					L := L
					if nb := op.TIssue + L; nb > now && op.NotBefore < nb {
						alts = append(alts, Event{Name: fmt.Sprintf("rdelay:%s:%v", op.ID, L), tgt: op.Inst, run: func() { w.apply(op); op.NotBefore = nb }})
					}
				}
			}
			for _, k := range s.AllowErr {
				k := k
				if !faultOK {
					break
				}
				alts = append(alts, Event{Name: "err:" + op.ID + ":" + k, tgt: op.Inst, run: func() { op.Fault = "err:" + k; op.resErr = errKind(k); w.answer(op) }})
			}
			if s.AllowLost && faultOK && op.Kind != "Get" && op.Kind != "Watch" {
				alts = append(alts, Event{Name: "lose:" + op.ID, tgt: op.Inst, run: func() {
					w.apply(op)
					op.Fault = "lost"
					op.resErr = nats.ErrTimeout
					op.ResRev = 0
					w.answer(op)
				}})
			}
		}
		for _, L := range s.DelayMenu {
			L := L
			if nb := op.TIssue + L; nb > now && op.NotBefore < nb {
				alts = append(alts, Event{Name: fmt.Sprintf("delay:%s:%v", op.ID, L), tgt: op.Inst, run: func() { op.NotBefore = nb }})
			}
		}
		if s.AllowHang && faultOK && op.NotBefore < math.MaxInt64 {
			alts = append(alts, Event{Name: "hang:" + op.ID, tgt: op.Inst, run: func() { op.NotBefore = math.MaxInt64; op.Fault = "hang"; op.Deadline = 0 }})
		}
	}

	// --- watch deliveries
	opDef := def
	def = nil
	ws := append([]*HWatcher(nil), w.watchers...)
	sort.SliceStable(ws, func(i, j int) bool { return ws[i].ID < ws[j].ID })
	for _, hw := range ws {
		hw := hw
		if hw.stopped || hw.closed || len(hw.queue) == 0 {
			continue
		}
		in := w.insts[hw.Inst]
		if in != nil && in.cut() {
			continue
		}
		if w.pcheckBusy(hw.Inst) {
			continue // determinism rule, DESIGN §2.5
		}
		if in != nil && (in.inStopCall > 0 || in.stopDone) {
			// the election context is (being) cancelled: the watch loop's select would
			// find both its Done case and the notification ready and pick one at random
			// (determinism rule, DESIGN §2.5); the loop is about to end anyway
			continue
		}
		head := hw.queue[0]
		desc := "nil"
		if !head.Nil {
			desc = fmt.Sprintf("r%d", head.Msg.Rev)
		}
		dlv := Event{Name: "dlv:" + hw.ID + ":" + desc, tgt: hw.Inst, run: func() { hw.queue = hw.queue[1:]; w.deliver(hw, head) }}
		drop := Event{Name: "drop:" + hw.ID + ":" + desc, tgt: hw.Inst, run: func() { hw.queue = hw.queue[1:]; w.ev(Ev{K: "watch.drop", I: hw.Inst, S: desc}) }}
		dup := Event{Name: "dup:" + hw.ID + ":" + desc, tgt: hw.Inst, run: func() { w.deliver(hw, head) }}
		if s.HoldWatch && !head.Nil {
			if w.devAllowed(hw.Inst) {
				alts = append(alts, dlv)
			}
		} else if s.DropAll && !head.Nil {
			def = append(def, drop)
			if w.devAllowed(hw.Inst) {
				alts = append(alts, dlv)
			}
		} else {
			def = append(def, dlv)
			if w.devAllowed(hw.Inst) && s.AllowDrop && !head.Nil {
				alts = append(alts, drop)
			}
		}
		if w.devAllowed(hw.Inst) && s.AllowDup && !head.Nil && hw.nDeliv < 64 {
			alts = append(alts, dup)
		}
	}

	if s.WatchFirst {
		def = append(def, opDef...) // notifications overtake replies in the default environment
	} else {
		def = append(opDef, def...)
	}

	// --- fine mode: resume a parked goroutine
	if w.fineOn {
		return w.fineEnabled(def, alts)
	}

	timeEv := Event{Name: "time", run: nil}
	var out []Event
	if len(def) > 0 {
		out = append(out, def[0])
		// the remaining default candidates are ordinary alternatives
		if w.devAllowed("") {
			out = append(out, def[1:]...)
		}
		out = append(out, alts...)
		if !overdue && !s.NoTimeDev && w.devAllowed("") {
			out = append(out, timeEv)
		}
	} else {
		if overdue {
			// cannot happen: an overdue op is always answerable
			panic("harness: overdue op but nothing to do")
		}
		out = append(out, timeEv)
		out = append(out, alts...)
	}
	return out
}

func (o *Op) S(r string) {
	switch r {
	case "ok":
		o.resB = true
	case "bad":
		o.resB = false
	case "slow":
		o.Fault = "slow"
	}
}

// nextHarnessTimer: the earliest virtual instant at which the harness itself wants control.
func (w *World) nextHarnessTimer() time.Duration {
	now := w.now()
	next := w.scn.Horizon
	consider := func(t time.Duration) {
		if t > now && t < next {
			next = t
		}
	}
	for i := range w.scn.Script {
		if !w.fired[i] && !w.scn.Script[i].Manual {
			consider(w.scn.Script[i].At)
		}
	}
	for _, op := range w.pending {
		if op.NotBefore != math.MaxInt64 {
			consider(op.NotBefore)
		}
		consider(op.Deadline)
	}
	return next
}

func (w *World) passTime() {
	for {
		select {
		case <-w.wake:
			continue
		default:
		}
		break
	}
	next := w.nextHarnessTimer()
	d := next - w.now()
	if d <= 0 {
		return
	}
	tm := time.NewTimer(d)
	select {
	case <-w.wake:
	case <-tm.C:
	}
	tm.Stop()
}

// ---------------------------------------------------------------------------

var curWorld *World

// RunOnce executes the scenario once under the given choice prefix (default afterwards).
func RunOnce(t *testing.T, scn *Scenario, prefix []string, keepTrace bool) (res *Result) {
	res = &Result{Scn: scn, Prefix: prefix}
	defer func() {
		if p := recover(); p != nil {
			if s := fmt.Sprint(p); strings.Contains(s, "blocked goroutines remain") {
				res.BubbleDeadlock = true
				return
			}
			panic(p)
		}
	}()
	synctest.Test(t, func(t *testing.T) {
		bubbleDone := false
		defer func() {
			if !bubbleDone {
				if p := recover(); p != nil {
					fmt.Fprintf(os.Stderr, "harness: bubble root panicked: %v\n%s\n", p, debug.Stack())
					panic(p)
				}
				fmt.Fprintf(os.Stderr, "harness: bubble root left abnormally (Goexit?)\n%s\n", debug.Stack())
			}
		}()
		w := &World{
			scn: scn, epoch: time.Now(), store: NewStore(scn.TTL), insts: map[string]*Inst{},
			opCount: map[string]int{}, nWatch: map[string]int{}, wake: make(chan struct{}, 1),
			opsThisInstant: map[string]int{}, verbose: keepTrace,
		}
		w.baseGor = runtime.NumGoroutine()
		w.fired = make([]bool, len(scn.Script))
		w.rootCtx, w.rootCancel = context.WithCancel(context.Background())
		for _, sp := range scn.Insts {
			in := w.newInst(sp)
			w.insts[sp.ID] = in
			w.order = append(w.order, sp.ID)
		}
		curWorld = w
		res.w = w
		rt.FloatFn = func() float64 {
			op := w.submit(&Op{Inst: w.stepTarget, Kind: "Rand"})
			return op.resF
		}
		rt.PointFn = w.point
		defer func() { rt.FloatFn, rt.PointFn, curWorld = nil, nil, nil }()

		ch := &chooser{prefix: prefix}
		maxSteps := scn.MaxSteps
		if maxSteps == 0 {
			maxSteps = 600
		}
		h := fnv.New64a()
		for step := 0; ; step++ {
			synctest.Wait()
			w.lock()
			w.observe(h, res)
			if w.now() >= scn.Horizon || step >= maxSteps || w.spin != "" {
				w.unlock()
				break
			}
			evs := w.enabled()
			i := ch.choose(evs)
			if i < 0 {
				w.unlock()
				break
			}
			e := evs[i]
			w.stepTarget = e.tgt
			w.curEvent = e.Name
			if e.run == nil { // time
				w.unlock()
				w.passTime()
				continue
			}
			if scn.FineAt != "" && !w.fineUsed && w.fineAtMatches(e.Name) {
				w.fineOn, w.fineUsed = true, true
				w.gnames, w.glabels = map[int]string{}, map[string]int{}
				w.ev(Ev{K: "fine.on", S: e.Name})
				for _, idx := range scn.FineFire {
					w.fired[idx] = true
					w.runItem(idx)
				}
			}
			e.run()
			w.unlock()
			res.Steps++
		}
		res.Chosen, res.Alts, res.Diverged = ch.chosen, ch.alts, ch.diverged
		res.EndT = w.now()
		w.teardown(res)
		res.Hash = h.Sum64()
		res.Trace, res.Ops, res.Hist = w.trace, w.ops, w.store.Hist
		for _, id := range w.order {
			res.Terms = append(res.Terms, w.insts[id].terms...)
		}
		res.Spin = w.spin
		bubbleDone = true
	})
	return res
}

// observe takes the quiescent-point snapshot (DESIGN §2.6) and folds it into the
// execution hash and the fingerprint list.
func (w *World) observe(h interface{ Write([]byte) (int, error) }, res *Result) {
	w.unlock()
	snaps := w.snapshot()
	w.lock()
	qe := Ev{K: "q", Snap: snaps, Rec: parseRec(w.store.Live("g", w.now()))}
	for k := range w.store.Latest {
		if k != "g" {
			if qe.Recs == nil {
				qe.Recs = map[string]*RecView{}
			}
			qe.Recs[k] = parseRec(w.store.Live(k, w.now()))
		}
	}
	w.ev(qe)
	// fingerprint: store + statuses + pending + queues, tokens canonicalised
	var sb strings.Builder
	canon := w.canon
	fmt.Fprintf(&sb, "t=%d;", w.now()/ms)
	for _, k := range sortedKeys(w.store.Latest) {
		m := w.store.latest(k, w.now())
		if m != nil {
			rv := parseRec(m)
			fmt.Fprintf(&sb, "k=%s:%d:%v:%s:%s:%s;", k, m.Rev, m.Del, rv.ID, canon(rv.Token), rv.Raw)
		}
	}
	for _, s := range snaps {
		fmt.Fprintf(&sb, "i=%s:%v:%s:%s:%s:%d:%v:%d:%d;", s.I, s.IsLeader, canon(s.Token), s.LeaderID, s.State, s.SRev, s.Blocked, s.NProm, s.NDem)
	}
	for _, p := range w.sortedPending() {
		fmt.Fprintf(&sb, "p=%s:%v;", p.ID, p.Applied)
	}
	for _, hw := range w.watchers {
		fmt.Fprintf(&sb, "w=%s:%d:%v;", hw.ID, len(hw.queue), hw.stopped)
	}
	f := fnv.New64a()
	f.Write([]byte(sb.String()))
	fp := f.Sum64()
	res.FPs = append(res.FPs, fp)
	h.Write([]byte(sb.String()))
	if n := runtime.NumGoroutine(); n > res.MaxGor {
		res.MaxGor = n
	}
}

func sortedKeys(m map[string]*Msg) []string {
	ks := make([]string, 0, len(m))
	for k := range m {
		ks = append(ks, k)
	}
	sort.Strings(ks)
	return ks
}

func (w *World) canon(tok string) string {
	if tok == "" {
		return ""
	}
	if w.tokNames == nil {
		w.tokNames = map[string]string{}
	}
	if n, ok := w.tokNames[tok]; ok {
		return n
	}
	n := fmt.Sprintf("tok#%d", len(w.tokNames)+1)
	w.tokNames[tok] = n
	return n
}

// snapshot reads every instance's public view. Status() takes the election mutex;
// it is called from helper goroutines so that a lock held for ever shows up as
// Blocked instead of hanging the scheduler.
func (w *World) snapshot() []ISnap {
	type r struct {
		i  int
		st statusView
	}
	var snaps []ISnap
	n := 0
	resc := make(chan r, len(w.order))
	saved := w.fineOn
	w.harnessBusy = true
	for _, id := range w.order {
		in := w.insts[id]
		if !in.created {
			continue
		}
		s := ISnap{I: id, IsLeader: in.el.IsLeader(), Token: in.el.Token(), LeaderID: in.el.LeaderID(), Gauge: in.gauge, NProm: in.nProm, NDem: in.nDem, Blocked: true,
			InStop: in.inStopCall > 0, StopDone: in.stopDone, StopFailed: in.stopFailed, CtxCancelled: in.ctxCancelled, Started: in.started, Cut: in.cut(), WQ: -1}
		for _, hw := range w.watchers {
			if hw.Inst == id && !hw.stopped && !hw.closed {
				s.WQ, s.WDeliv = len(hw.queue), hw.nDeliv
			}
			if hw.Inst == id && !hw.stopped {
				s.WOpen++
			}
		}
		for _, p := range w.pending {
			if p.Inst == id {
				s.Pend++
				if p.TIssue >= in.lastStart {
					s.PendCur++
				}
			}
		}
		// (the acknowledged write with the highest revision: operations are listed in the
		// order of their issue, which is not the order in which the store applied them)
		for k := len(w.ops) - 1; k >= 0; k-- {
			if o := w.ops[k]; o.Inst == id && o.Wrote != nil && !o.Wrote.Del && o.Answered && o.resErr == nil && o.Wrote.Rev > s.OwnRev {
				s.OwnRev = o.Wrote.Rev
			}
		}
		snaps = append(snaps, s)
		idx := len(snaps) - 1
		if in.statusStuck {
			continue
		}
		n++
		go func() {
			w.mu.Lock()
			if w.helpers == nil {
				w.helpers = map[int]bool{}
			}
			w.helpers[curGID()] = true
			w.mu.Unlock()
			st := in.el.Status()
			in.statusStuck = false // a call that was held up (slow callback under the mutex) has returned after all
			resc <- r{idx, statusView{st.State, st.IsLeader, st.Token, st.LeaderID, st.Revision}}
		}()
	}
	if n > 0 {
		synctest.Wait()
	}
	for {
		select {
		case x := <-resc:
			s := &snaps[x.i]
			s.Blocked = false
			s.State, s.SIsLead, s.SToken, s.SLeader, s.SRev = x.st.State, x.st.IsLeader, x.st.Token, x.st.LeaderID, x.st.Rev
			continue
		default:
		}
		break
	}
	fine := len(w.parked) > 0 // a goroutine is parked at a scheduling point, possibly inside a critical section
	for i := range snaps {
		snaps[i].Fine = fine
		if snaps[i].Blocked && !fine {
			w.insts[snaps[i].I].statusStuck = true
		}
	}
	w.harnessBusy = false
	_ = saved
	return snaps
}

type statusView struct {
	State    string
	IsLeader bool
	Token    string
	LeaderID string
	Rev      uint64
}

// teardown ends the execution: cancel everything, fail what is in flight, let the
// bubble drain for a virtual hour, and take a census of what is still there.
func (w *World) teardown(res *Result) {
	w.lock()
	allStopped := len(w.pending) == 0
	nCreated := 0
	for _, id := range w.order {
		in := w.insts[id]
		if in.created {
			nCreated++
			if !in.stopDone || in.inStopCall > 0 {
				allStopped = false
			}
		}
	}
	for _, a := range w.actors {
		if a.busy {
			allStopped = false
		}
	}
	if allStopped && nCreated > 0 && runtime.NumGoroutine() > w.baseGor {
		res.PreStuck = libraryGoroutines(false)
	}
	w.closing = true
	w.fineOn = false
	w.ev(Ev{K: "teardown"})
	w.unlock()
	w.releaseParked()
	w.rootCancel()
	for round := 0; round < 50; round++ {
		synctest.Wait()
		w.lock()
		ps := append([]*Op(nil), w.pending...)
		for _, op := range ps {
			if !op.Answered {
				op.Fault = "closed"
				op.resErr = nats.ErrConnectionClosed
				op.resEnt, op.resW = nil, nil
				if op.Kind == "Rand" {
					op.resF = 0.5
				}
				w.answer(op)
			}
		}
		w.unlock()
		w.releaseParked()
		if len(ps) == 0 && round > 0 {
			break
		}
	}
	time.Sleep(time.Hour)
	synctest.Wait()
	w.lock()
	ps := append([]*Op(nil), w.pending...)
	for _, op := range ps {
		op.Fault = "closed"
		op.resErr = nats.ErrConnectionClosed
		w.answer(op)
	}
	w.unlock()
	synctest.Wait()
	if runtime.NumGoroutine() > w.baseGor {
		res.Stuck = libraryGoroutines(true)
	}
}

// libraryGoroutines returns, for every goroutine that still has a frame of the
// library on its stack, a one-line signature (innermost library frames).
var leakedIDs = map[string]bool{}
var stackBuf []byte

func libraryGoroutines(mark bool) []string {
	if stackBuf == nil {
		stackBuf = make([]byte, 1<<22)
	}
	buf := stackBuf
	n := runtime.Stack(buf, true)
	var out []string
	for _, g := range strings.Split(string(buf[:n]), "\n\n") {
		if !strings.Contains(g, leaderPkg) {
			continue
		}
		if strings.Contains(g, "harness.libraryGoroutines") {
			continue
		}
		hdr := g
		if i := strings.Index(g, " ["); i > 0 {
			hdr = g[:i]
		}
		if leakedIDs[hdr] {
			continue // left over from an earlier execution of this worker
		}
		if mark {
			leakedIDs[hdr] = true
		}
		var frames []string
		lines := strings.Split(g, "\n")
		state := ""
		if len(lines) > 0 {
			if i := strings.Index(lines[0], "["); i >= 0 {
				state = strings.TrimSuffix(lines[0][i:], ":")
				if j := strings.Index(state, ","); j >= 0 {
					state = state[:j] + "]"
				}
			}
		}
		for _, l := range lines[1:] {
			if strings.HasPrefix(l, "\t") || strings.HasPrefix(l, "created by") {
				continue
			}
			if i := strings.Index(l, leaderPkg); i >= 0 {
				fn := l[i+len(leaderPkg):]
				if j := strings.LastIndex(fn, "("); j > 0 {
					fn = fn[:j]
				}
				frames = append(frames, fn)
			}
		}
		if len(frames) > 4 {
			frames = frames[:4]
		}
		out = append(out, state+" "+strings.Join(frames, " < "))
	}
	sort.Strings(out)
	return out
}

// opSeq: the per-(instance,label,kind) sequence number encoded in the op id.
func opSeq(op *Op) int {
	i := strings.LastIndex(op.ID, "#")
	n := 0
	fmt.Sscanf(op.ID[i+1:], "%d", &n)
	return n
}

// fineAtMatches: FineAt is an exact event name, or "create-wins:<inst>" = the answer of
// a Create of that instance that is going to succeed (no live record right now).
func (w *World) fineAtMatches(name string) bool {
	at := w.scn.FineAt
	if at == name {
		return true
	}
	if strings.HasPrefix(at, "hb-after-takeover:") {
		// the answer of a heartbeat refresh of <inst> whose record is already somebody else's
		inst := strings.TrimPrefix(at, "hb-after-takeover:")
		if strings.HasPrefix(name, "ok:"+inst+".hb.Update#") {
			in := w.insts[inst]
			if in == nil {
				return false
			}
			m := w.store.Live(in.group(), w.now())
			return m != nil && m.By != inst
		}
		return false
	}
	if strings.HasPrefix(at, "create-wins:") {
		inst := strings.TrimPrefix(at, "create-wins:")
		if strings.HasPrefix(name, "ok:"+inst+".") && strings.Contains(name, ".Create#") {
			in := w.insts[inst]
			return in != nil && w.store.Live(in.group(), w.now()) == nil
		}
	}
	return false
}
