package harness

import (
	"strings"
	"time"
)

func (s *Scenario) faulty() *Scenario {
	s.LatencyBound = 0
	s.DelayMenu = []time.Duration{s.H/2 - 2*ms}
	s.AllowErr = []string{"timeout"}
	s.AllowLost = true
	s.AllowDrop = true
	s.AllowDup = false
	s.RandMenu = []float64{0, 1 - 1.0/(1<<53)}
	s.MoveScript = true
	return s
}

// S-failover-crash: A leads; A crashes; candidates must take over after expiry.
func scnFailoverCrash(name string, k kfn, ids ...string) *Scenario {
	s := k(&Scenario{Name: name})
	s.Insts = insts(ids...)
	s.Script = starts(ids...)
	s.Script = append(s.Script, Item{At: 2*s.H + 53*ms, Actor: "chaos", Do: "crash", Inst: "A"})
	s.Horizon = 2*s.H + 53*ms + s.TTL + 1500*ms
	s = s.faultFree()
	s.AllowDrop = true
	return s
}

// S-partition: A leads; A is cut off for w (0 = for ever).
func scnPartition(name string, k kfn, w time.Duration, ids ...string) *Scenario {
	s := k(&Scenario{Name: name})
	s.Insts = insts(ids...)
	s.Script = starts(ids...)
	t := 2*s.H + 53*ms
	s.Script = append(s.Script, Item{At: t, Actor: "chaos", Do: "partition", Inst: "A"})
	if w > 0 {
		s.Script = append(s.Script, Item{At: t + w, Actor: "chaos", Do: "heal", Inst: "A"})
	}
	s.PartitionTimeout = 1500 * ms
	s.Horizon = t + 4500*ms
	s = s.faulty()
	s.AllowLost = false
	return s
}

// S-preempt: instances with priorities / takeover flags.
func scnPreempt(name string, k kfn, specs []InstSpec, order []string) *Scenario {
	s := k(&Scenario{Name: name})
	s.Insts = specs
	s.Script = starts(order...)
	s.Horizon = 5*s.H + 100*ms
	return s.faultFree()
}

// S-2groups: two groups in one bucket.
func scn2groups(name string, k kfn) *Scenario {
	s := k(&Scenario{Name: name})
	s.Insts = []InstSpec{{ID: "A", Group: "g"}, {ID: "B", Group: "g"}, {ID: "C", Group: "g2"}, {ID: "D", Group: "g2"}}
	s.Script = starts("A", "C", "B", "D")
	s.Script = append(s.Script, Item{At: 2*s.H + 53*ms, Actor: "stopA", Do: "stopctx", Inst: "A", DeleteKey: true})
	s.Horizon = 2*s.H + 53*ms + 900*ms
	return s.faultFree()
}

// S-terms: A leads, is demoted by health, the record lapses, re-election; B present or not.
func scnTerms(name string, k kfn, health []string, maxFail int, ids ...string) *Scenario {
	s := k(&Scenario{Name: name})
	s.Insts = insts(ids...)
	s.Insts[0].Health = health
	s.Insts[0].MaxFail = maxFail
	s.Script = starts(ids...)
	s.Horizon = time.Duration(len(health)+2)*s.H + 2*(s.TTL+700*ms)
	return s.faultFree()
}

// S-hbfault-lite for the trace oracles: a leader whose store ops may fail / lose acks.
func scnFaulty(name string, k kfn, ids ...string) *Scenario {
	s := k(&Scenario{Name: name})
	s.Insts = insts(ids...)
	s.Script = starts(ids...)
	s.Horizon = 6*s.H + 100*ms
	return s.faulty()
}

func generalPlan(tier string, faults bool) []PlanItem {
	d := 1
	if tier == "thorough" {
		d = 2
	}
	items := []PlanItem{
		{scnElect("elect2-K1", K1, "A", "B"), d + 1},
		{scnElect("elect3-K1", K1, "A", "B", "C"), d},
		{scnElect("elect2-K2", K2, "A", "B"), d},
		{scnFailoverDel("failover-del2-K1", K1, "A", "B"), d + 1},
		{scnFailoverDel("failover-del3-K1", K1, "A", "B", "C"), d},
		{scnFailoverDel("failover-del2-K2", K2, "A", "B"), d},
		{scnElect("elect2-K3", K3, "A", "B"), d},
		{scnFailoverDel("failover-del2-K3", K3, "A", "B"), d},
		{scnElect("elect4-K1", K1, "A", "B", "C", "D"), d},
		// equal priorities with takeover enabled: nobody may preempt anybody, but every
		// failed Create goes through the takeover path
		{equalPrioTakeover(scnElect("elect2-takeover-equal-K1", K1, "A", "B")), d},
		{equalPrioTakeover(scnFailoverDel("failover-del2-takeover-equal-K1", K1, "A", "B")), d + 1},
		{scn2groups("2groups-K1", K1), d},
	}
	for _, sv := range stopVariants {
		items = append(items, PlanItem{scnStop("stop/"+stopName(sv)+"-K1", K1, sv, "A", "B"), d})
		items = append(items, PlanItem{scnRestart("restart/"+stopName(sv)+"-K1", K1, sv), d})
	}
	// reply latency (the store applies an operation now, the reply arrives up to H/2 later)
	// around the interesting instant of three base scenarios
	{
		f := scnFailoverDel("failover-del2-K1", K1, "A", "B")
		items = append(items, PlanItem{splitReplies(f, 2*f.H+53*ms-10*ms, 2*f.H+53*ms+120*ms), d})
		ft := equalPrioTakeover(scnFailoverDel("failover-del2-takeover-equal-K1", K1, "A", "B"))
		// two late replies (the winner's and the takeover Update of a sibling round): seed C07-5
		items = append(items, PlanItem{splitReplies(ft, 2*ft.H+53*ms-10*ms, 2*ft.H+53*ms+120*ms), d + 1})
		f3 := scnFailoverDel("failover-del3-K1", K1, "A", "B", "C")
		items = append(items, PlanItem{splitReplies(f3, 2*f3.H+53*ms-10*ms, 2*f3.H+53*ms+120*ms), d})
	}
	// the periodic token validation runs just ahead of the heartbeat (ValidationInterval a
	// little below 2H): its read is applied before the refresh and answered after it, twice
	// in a row (two reply-latency deviations)
	items = append(items, PlanItem{scnValidationAheadOfHeartbeat("lone-leader-validation-ahead-of-heartbeat"), d + 1})
	// decorated variants: the application's callbacks take time; every instance runs a
	// health checker whose checks take 50 ms and succeed; takeover enabled at equal priority
	items = append(items,
		PlanItem{slowCallbacks(scnFailoverDel("failover-del2-K1", K1, "A", "B")), d},
		PlanItem{slowCallbacks(scnRestart("restart/stop-K1", K1, Item{Do: "stop"})), d},
		PlanItem{healthLate(scnFailoverDel("failover-del2-K1", K1, "A", "B")), d},
		PlanItem{healthLate(scnRestart("restart/stop-K1", K1, Item{Do: "stop"})), d},
		PlanItem{equalPrioTakeover(scnRestart("restart/stop-takeover-equal-K1", K1, Item{Do: "stop"})), d},
		PlanItem{equalPrioTakeover(scnStop("stop/stopctx-del-takeover-equal-K1", K1, Item{Do: "stopctx", DeleteKey: true}, "A", "B")), d},
		// shutdowns that fail: the promotion callback needs 300 ms to wind down but the
		// shutdown waits 100 ms only; the context handed to StopWithContext has expired
		// the context passed to Start is cancelled ("the election will stop gracefully")
		PlanItem{scnCtxCancel("ctx-cancel-K1", K1, false), d},
		PlanItem{scnCtxCancel("ctx-cancel-then-stop-K1", K1, true), d},
		PlanItem{failingStop(scnStop("stop/stopctx+wait+to100ms", K1, Item{Do: "stopctx", WaitForDemote: true, Timeout: 100 * ms}, "A", "B")), d},
		PlanItem{failingStop(scnStop("stop/stopctx+expired-ctx", K1, Item{Do: "stopctx", CtxTimeout: -1}, "A", "B")), d},
		PlanItem{longDemote(scnStop("stop/stopctx+del+wait", K1, Item{Do: "stopctx", DeleteKey: true, WaitForDemote: true}, "A", "B", "C")), d})
	items = append(items,
		PlanItem{scnRestartLate("restart-late/stop-K1", K1, Item{Do: "stop"}), d},
		PlanItem{scnRestartLate("restart-late/stopctx-K1", K1, Item{Do: "stopctx"}), d},
		PlanItem{scnRestartFollower("restart-follower/stop-K1", K1, Item{Do: "stop"}), d + 1},
		PlanItem{scnFailoverTwice("failover-twice-K1", K1), d},
		PlanItem{scnRestart2("restart2/stop-then-stopdel-K1", K1, Item{Do: "stop"}), d},
		PlanItem{scnRestart2("restart2/stopctx-then-stopdel-K1", K1, Item{Do: "stopctx"}), d},
		PlanItem{dropAll(scnRestart2("restart2/stop-then-stopdel-K1-dropall", K1, Item{Do: "stop"})), d})
	if faults {
		items = append(items,
			PlanItem{scnFailoverCrash("failover-crash2-K1", K1, "A", "B"), d},
			PlanItem{scnFailoverCrash("failover-crash3-K1", K1, "A", "B", "C"), d},
			PlanItem{scnPartition("partition-400ms-K1", K1, 400*ms, "A", "B"), d},
			PlanItem{scnPartition("partition-1s-K1", K1, 1000*ms, "A", "B"), d},
			PlanItem{scnPartition("partition-forever-K1", K1, 0, "A", "B"), d},
			PlanItem{scnFaulty("faulty2-K1", K1, "A", "B"), d},
			PlanItem{scnTerms("terms-health-K1", K1, []string{"ok", "bad", "bad", "bad", "ok", "ok", "ok", "bad", "bad", "bad", "ok"}, 3, "A"), d},
			PlanItem{scnTerms("terms-health2-K1", K1, []string{"ok", "bad", "bad", "ok"}, 2, "A", "B"), d},
			PlanItem{scnPreempt("preempt-lowfirst-K1", K1, []InstSpec{{ID: "A", Priority: 1, Takeover: true}, {ID: "B", Priority: 2, Takeover: true}}, []string{"A", "B"}), d},
			PlanItem{slowApp(scnFailoverDel("failover-del2-K1", K1, "A", "B")), d},
			PlanItem{slowApp(scnPreempt("preempt-lowfirst-K1", K1, []InstSpec{{ID: "A", Priority: 1, Takeover: true}, {ID: "B", Priority: 2, Takeover: true}}, []string{"A", "B"})), d},
			PlanItem{slowApp(scnRestart("restart/stop-K1", K1, Item{Do: "stop"})), d},
			PlanItem{slowApp(scnFailoverTamper("failover-then-outside-delete-K1", K1, "delete")), d},
			PlanItem{healthLate(scnPreempt("preempt-lowfirst-K1", K1, []InstSpec{{ID: "A", Priority: 1, Takeover: true}, {ID: "B", Priority: 2, Takeover: true}}, []string{"A", "B"})), d},
			PlanItem{splitReplies(scnPreempt("preempt-lowfirst-K1", K1, []InstSpec{{ID: "A", Priority: 1, Takeover: true}, {ID: "B", Priority: 2, Takeover: true}}, []string{"A", "B"}), 0, 450*ms), d},
			PlanItem{splitReplies(scnPrio("preempt-chain-123-K1", []prioOpt{{1, false}, {2, true}, {3, true}}, []string{"A", "B", "C"}, false), 0, 450*ms), d},
			PlanItem{scnPreemptStop("preempt-then-stopdel-K1", K1), d},
			PlanItem{scnPreemptDemotedStop("preempt-demoted-then-stopdel-K1-dropall", K1), d},
			PlanItem{scnHealthWindowTakeover("takeover-inside-health-check-K1", K1), d},
			PlanItem{scnFollowerTakeover("follower-takeover-K1", K1), d},
			PlanItem{scnPreemptThenRelease("preempt-then-release-K1", K1), d},
			PlanItem{scnRestartAfterHungStop("restart-after-hung-stop-K1", K1), d},
			PlanItem{scnReelectLinger("reelect-lingering-callbacks-K1", K1), d},
			PlanItem{scnStopLostAck("stop/stopctx-del-lost-ack-K1", K1), d + 1},
			PlanItem{scnStopSlowWinddown("stop/promote-callback-outlives-stop-wait-K1", K1, Item{Do: "stop"}), d},
			PlanItem{scnStopSlowWinddown("stopctx/promote-callback-outlives-stop-wait-K1", K1, Item{Do: "stopctx", DeleteKey: true}), d},
			PlanItem{scnReelectSlowMetric("reelect-during-slow-demotion-metric-K1", K1), d},
			PlanItem{scnTwoRoundsThenDelete("two-rounds-then-outside-delete-K1", K1), d},
			PlanItem{scnFailoverTamper("failover-then-outside-delete-K1", K1, "delete"), d},
			PlanItem{scnFailoverTamper("failover-then-outside-put-K1", K1, "put"), d},
			PlanItem{scnPrio("preempt-chain-123-K1", []prioOpt{{1, false}, {2, true}, {3, true}}, []string{"A", "B", "C"}, false), d},
			PlanItem{scnPrio("preempt-chain-132-K1", []prioOpt{{1, true}, {3, true}, {2, true}}, []string{"A", "B", "C"}, false), d},
			PlanItem{scnPreempt("preempt-mixed-K1", K1, []InstSpec{{ID: "A", Priority: 2}, {ID: "B", Priority: 2, Takeover: true}, {ID: "C", Priority: 3, Takeover: true}}, []string{"A", "B", "C"}), d},
		)
	}
	return items
}

const ruleExpl = "every execution (choice sequence) with at most D deviations (per scenario, see 'scenarios') from the default environment of each listed scenario of the real election code in a synctest bubble; distinct = distinct observation-trace hash; non-trivial = "

func init() {
	base := []string{"reference store semantics (validated by C14)", "participants bounded to 2-4 instances, <=2 groups", "deviation bound as reported per scenario", "interleavings between two store/timer seams are explored only in fine-mode windows"}
	props["C01"] = &propDef{Level: "exploration", Rule: ruleExpl + "at least one successful mutation by a library instance", Assume: base,
		Plan: func(t string) []PlanItem { return generalPlan(t, true) }}
	props["C05"] = &propDef{Level: "exploration", Rule: ruleExpl + "at least two acquisition writes (two terms) in the store log", Assume: base,
		Plan: func(t string) []PlanItem {
			return append(append(generalPlan(t, true), finePlan("C05", t)...), PlanItem{scnZombieRestart("zombie-restart-same-id-K2"), 1})
		}}
	props["C07"] = &propDef{Level: "exploration", Rule: ruleExpl + "some instance was promoted", Assume: base,
		Plan: func(t string) []PlanItem { return append(generalPlan(t, false), finePlan("C07", t)...) }}
	props["C08"] = &propDef{Level: "exploration", Rule: ruleExpl + "a promotion callback ran", Assume: base,
		Plan: func(t string) []PlanItem {
			d := 1
			if t == "thorough" {
				d = 2
			}
			return append(append(generalPlan(t, true), finePlan("C08", t)...), PlanItem{scnTwoWinnersThenUsurped("two-winners-slow-ondemote-then-usurped-K1", K1), d})
		}}
	props["C09"] = &propDef{Level: "exploration", Rule: ruleExpl + "a stop call returned", Assume: base,
		Plan: func(t string) []PlanItem {
			return append(append(generalPlan(t, false), connStopPlan(t)...), finePlan("C09", t)...)
		}}
	props["C18"] = &propDef{Level: "exploration", Rule: ruleExpl + "a Status() snapshot was taken", Assume: base,
		Plan: func(t string) []PlanItem {
			d := 1
			if t == "thorough" {
				d = 2
			}
			return append(append(generalPlan(t, true), finePlan("C18", t)...),
				PlanItem{scnWatchBroken("failover-del3-K1-watch-broken", K1), d})
		}}
	props["C19"] = &propDef{Level: "exploration", Rule: ruleExpl + "a promotion callback received a context", Assume: base,
		Plan: func(t string) []PlanItem { return append(generalPlan(t, true), finePlan("C19", t)...) }}
}

// preempt-then-stop: A (priority 1) leads, B (priority 2, takeover) preempts it; A is
// shut down with DeleteKey before it has noticed (its next heartbeat is 200 ms away).
func scnPreemptStop(name string, k kfn) *Scenario {
	s := scnPreempt(name, k, []InstSpec{{ID: "A", Priority: 1, Takeover: true}, {ID: "B", Priority: 2, Takeover: true}}, []string{"A", "B"})
	s.Script = append(s.Script, Item{At: s.H/2 + 3*us, Actor: "stopA", Do: "stopctx", Inst: "A", DeleteKey: true})
	return s
}

// failover-then-tamper: B follows A, takes over after A's graceful stop (so B leads with
// its watcher still running), then an outside party deletes / rewrites B's record.
func scnFailoverTamper(name string, k kfn, action string) *Scenario {
	s := scnFailoverDel(name, k, "A", "B")
	at := 2*s.H + 53*ms + 2*s.H + 17*ms + 5*us
	if action == "delete" {
		s.Script = append(s.Script, Item{At: at, Actor: "outside", Do: "delete"})
	} else {
		s.Script = append(s.Script, Item{At: at, Actor: "outside", Do: "put", Payload: `{"id":"X","token":"tok-x","priority":0}`})
	}
	s.Horizon = at + s.TTL + 900*ms
	return s
}

// preempt-demoted-then-stop: like preempt-then-stop, but A is shut down only after its
// heartbeat has noticed the preemption (it is a follower then); all watch events are
// dropped, so what A has cached about the leader is not refreshed before the shutdown.
func scnPreemptDemotedStop(name string, k kfn) *Scenario {
	s := scnPreempt(name, k, []InstSpec{{ID: "A", Priority: 1, Takeover: true}, {ID: "B", Priority: 2, Takeover: true}}, []string{"A", "B"})
	s.Script = append(s.Script, Item{At: s.H + s.H/2 + 3*us, Actor: "stopA", Do: "stopctx", Inst: "A", DeleteKey: true})
	s.DropAll = true
	return s
}

// takeover-inside-health-check: A (priority 1, health checker, watcher still running
// because it followed X first) leads; B (priority 2, takeover) starts while one of A's
// heartbeat ticks is inside a health check that takes 50 ms and then reports healthy, i.e.
// between the tick's leadership test and its revision read.
func scnHealthWindowTakeover(name string, k kfn) *Scenario {
	s := k(&Scenario{Name: name})
	s.Insts = []InstSpec{{ID: "X", Priority: 1}, {ID: "A", Priority: 1, Health: []string{"ok", "ok", "late", "ok"}}, {ID: "B", Priority: 2, Takeover: true}}
	s.Script = starts("X", "A")
	tDel := 1*s.H + 53*ms
	s.Script = append(s.Script, Item{At: tDel, Actor: "stopX", Do: "stopctx", Inst: "X", DeleteKey: true, Fixed: true})
	// A wins at about tDel+55ms (watch delete event + jitter); its third tick is 3H later
	tTick := tDel + 55*ms + 3*s.H
	s.Script = append(s.Script, Item{At: tTick + 10*ms, Actor: "startB", Do: "start", Inst: "B"})
	s.Horizon = tTick + 4*s.H
	return s.faultFree()
}

// follower-takeover: B (priority 2, takeover) follows a record that names Z with an equal
// priority (written from outside, nobody refreshes it); the record is then rewritten twice
// in a row with a lower priority, so that B's watcher starts two takeover rounds that
// overlap. Replies may arrive later than the store applied the operation (SplitApply).
func scnFollowerTakeover(name string, k kfn) *Scenario {
	s := k(&Scenario{Name: name})
	s.Insts = []InstSpec{{ID: "B", Priority: 2, Takeover: true}}
	s.Script = []Item{
		{At: 0, Actor: "outside", Do: "put", Payload: `{"id":"Z","token":"tz","priority":2}`, Fixed: true},
		{At: 1 * ms, Actor: "startB", Do: "start", Inst: "B", Fixed: true},
		{At: 100 * ms, Actor: "outside", Do: "put", Payload: `{"id":"Z","token":"tz","priority":1}`, Fixed: true},
		{At: 100 * ms, Actor: "outside", Do: "put", Payload: `{"id":"Z","token":"tz","priority":1}`, Fixed: true},
	}
	s.Horizon = 100*ms + 3*s.H
	s = s.faultFree()
	s.SplitApply = true
	s.WatchFirst = true
	s.RandMenu = nil
	s.DevFrom, s.DevUntil = 100*ms, 190*ms
	return s
}

// reelect-lingering-callbacks: A (alone) loses its record to an outside delete, is demoted
// by its next heartbeat and re-acquires the vacant key 55 ms later, while the previous
// term's OnPromote callback is still cleaning up (it returns 300 ms after its context was
// cancelled) and OnDemote takes 150 ms.
func scnReelectLinger(name string, k kfn) *Scenario {
	s := k(&Scenario{Name: name})
	s.Insts = []InstSpec{{ID: "A", PromoteLinger: 300 * ms, DemoteDur: 150 * ms}}
	s.Script = starts("A")
	s.Script = append(s.Script, Item{At: 1*s.H + s.H/2 + 7*us, Actor: "outside", Do: "delete"})
	s.Horizon = 2*s.H + 5*s.H
	return s.faultFree()
}

// stop/promote-callback-outlives-stop-wait: the leader's OnPromote callback does the leader
// work itself and needs 5.6 s to wind down after its context was cancelled, longer than the
// 5 s Stop (and StopWithContext without deadline) waits for the election's goroutines: the
// stop call takes its wait-timeout exit. B follows and takes over.
func scnStopSlowWinddown(name string, k kfn, stop Item) *Scenario {
	s := scnStop(name, k, stop, "A", "B")
	s.Insts[0].PromoteLinger = 5600 * ms
	s.Horizon = 2*s.H + 37*ms + 5600*ms + 800*ms
	s.DevUntil = 2*s.H + 37*ms + 400*ms
	return s
}

// zombie-restart: the process of instance A stalls on one heartbeat (its third refresh is
// never answered; the library gives up after its 1 s time-out), its record lapses, and a
// second process configured with the SAME InstanceID (A restarted by its supervisor, harness
// name A2) wins the vacant key: term 2 of "A", with a new token. The old process's next
// refresh meets the new record - same id, different token - and has to stand down without
// ever writing its old token again.
func scnZombieRestart(name string) *Scenario {
	s := K2(&Scenario{Name: name})
	s.Insts = []InstSpec{{ID: "A"}, {ID: "A2", ConfigID: "A"}}
	s.Script = []Item{
		{At: 0, Actor: "lifeA", Do: "start", Inst: "A", Fixed: true},
		{At: 2*s.H + 61*ms, Actor: "lifeA2", Do: "start", Inst: "A2", Fixed: true}}
	s.Fault = &FaultSpec{Inst: "A", FromN: 3, Mode: "hang", Once: true}
	s.Horizon = 3*s.H + time.Second + s.TTL + 4*s.H
	s.LatencyBound = s.H/2 - ms
	s.DelayMenu = []time.Duration{s.H/2 - 2*ms}
	s.RandMenu = nil
	s.AllowDup = false
	s.DevFrom = 2 * s.H
	s.MaxSteps = 3000
	return s
}

// lone-leader-validation-ahead-of-heartbeat: A alone, H = 200 ms, ValidationInterval =
// 390 ms (it has to be >= H): every validation read is issued 10 ms, 20 ms, ... before a
// refresh. Replies may lag the application of an operation by up to H/2, so the read can be
// answered after the refresh it was applied in front of.
func scnValidationAheadOfHeartbeat(name string) *Scenario {
	s := K1(&Scenario{Name: name})
	s.Validation = 390*ms + 7*us
	s.Insts = insts("A")
	s.Script = starts("A")
	s.Horizon = 6*s.H + 50*ms
	s = s.faultFree()
	s.SplitApply = true
	s.RandMenu = nil
	s.DevFrom, s.DevUntil = 380*ms, 4*s.H+50*ms
	return s
}

// stop/stopctx-del-lost-ack: the leader shuts down with DeleteKey; the acknowledgement of a
// shutdown operation may get lost after the store applied it (the only fault offered); B
// takes the vacant key. Whatever the shutdown does after the lost acknowledgement happens
// when the key may already be B's.
func scnStopLostAck(name string, k kfn) *Scenario {
	s := scnStop(name, k, Item{Do: "stopctx", DeleteKey: true}, "A", "B")
	s.AllowLost = true
	s.FaultLabels = []string{"shutdown"}
	s.Horizon += 2 * time.Second // room for a retrying shutdown
	// deviations around the shutdown only: the lost acknowledgement plus one more (the
	// successor's jitter draw, a latency)
	s.DevFrom, s.DevUntil = 2*s.H+37*ms-ms, 2*s.H+37*ms+250*ms
	return s
}

// two-rounds-then-outside-delete: B follows a record written from outside; the record is
// deleted, rewritten and deleted again at one instant, so that B's watcher starts two
// acquisition rounds whose Creates are in flight together; 245 ms later an outside party
// deletes the key again (the explorer may fire that delete earlier, e.g. between the two
// answers: the second Create then succeeds on an instance that already leads).
func scnTwoRoundsThenDelete(name string, k kfn) *Scenario {
	s := k(&Scenario{Name: name})
	s.Insts = []InstSpec{{ID: "B"}}
	z := `{"id":"Z","token":"tz","priority":0}`
	s.Script = []Item{
		{At: 0, Actor: "outside", Do: "put", Payload: z, Fixed: true},
		{At: 1 * ms, Actor: "startB", Do: "start", Inst: "B", Fixed: true},
		// (B's start-time acquisition round gives up at 406 ms)
		{At: 450 * ms, Actor: "outside", Do: "delete", Fixed: true},
		{At: 450 * ms, Actor: "outside", Do: "put", Payload: z, Fixed: true},
		{At: 450 * ms, Actor: "outside", Do: "delete", Fixed: true},
		{At: 750 * ms, Actor: "outside2", Do: "delete"},
	}
	s.Horizon = 750*ms + 5*s.H
	s = s.faultFree()
	s.RandMenu = nil
	s.DevFrom, s.DevUntil = 500*ms, 770*ms
	return s
}

// two-winners-slow-ondemote-then-usurped: as two-rounds-then-outside-delete, but OnDemote
// takes 150 ms and an outside party writes its own record 15 ms after the two Creates were
// issued: when the second Create wins as well (the delete moved between the two answers),
// the second term is lost to the outside record while the first term's OnDemote - which the
// library runs in front of the second term's OnPromote - is still busy.
func scnTwoWinnersThenUsurped(name string, k kfn) *Scenario {
	s := scnTwoRoundsThenDelete(name, k)
	s.Insts[0].DemoteDur = 150 * ms
	s.Script = append(s.Script, Item{At: 520*ms + 3*us, Actor: "outside3", Do: "put", Payload: `{"id":"Z","token":"tz2","priority":0}`, Fixed: true})
	s.Horizon = 750*ms + 5*s.H
	return s
}

// failover-del3-watch-broken: B's Watch requests never succeed, so B lives on the periodic
// check alone; A leads and shuts down with DeleteKey, C (a normal follower, first to be
// notified) takes over: B has to learn about A first and about C afterwards.
func scnWatchBroken(name string, k kfn) *Scenario {
	s := scnFailoverDel(name, k, "A", "B", "C")
	s.WatchBroken = []string{"B"}
	s.Horizon += 1200 * ms
	return s
}

// reelect-during-slow-demotion-metric: A (alone, watcher running because it followed an
// outside record first) loses its record to an outside delete 45 ms before a heartbeat; the
// heartbeat demotes it, and the acquisition round started by the delete notification wins
// the vacant key 10 ms later, while the demotion is still inside the application's slow
// Metrics.IncTransitions (300 ms).
func scnReelectSlowMetric(name string, k kfn) *Scenario {
	s := k(&Scenario{Name: name})
	s.Insts = []InstSpec{{ID: "A", SlowDemoteMetric: 300 * ms}}
	z := `{"id":"Z","token":"tz","priority":0}`
	s.Script = []Item{
		{At: 0, Actor: "outside", Do: "put", Payload: z, Fixed: true},
		{At: 1 * ms, Actor: "startA", Do: "start", Inst: "A", Fixed: true},
		{At: 450 * ms, Actor: "outside", Do: "delete", Fixed: true}, // A wins at 505 ms; heartbeats at 705, 905, ...
		{At: 660 * ms, Actor: "outside", Do: "delete"},
	}
	s.Horizon = 705*ms + 300*ms + 5*s.H
	s = s.faultFree()
	s.RandMenu = nil
	s.DevFrom = 600 * ms
	return s
}

func equalPrioTakeover(s *Scenario) *Scenario {
	for i := range s.Insts {
		s.Insts[i].Priority, s.Insts[i].Takeover = 1, true
	}
	return s
}

// slowCallbacks: OnDemote takes 150 ms, OnPromote returns 300 ms after its context was
// cancelled (neither runs under the election mutex).
func slowCallbacks(s *Scenario) *Scenario {
	s.Name += "/slow-callbacks"
	for i := range s.Insts {
		s.Insts[i].DemoteDur, s.Insts[i].PromoteLinger = 150*ms, 300*ms
	}
	s.Horizon += 600 * ms
	return s
}

// slowApp: slowCallbacks plus a metrics backend that takes 120 ms to count a
// LEADER->FOLLOWER transition (called under the election mutex).
func slowApp(s *Scenario) *Scenario {
	s = slowCallbacks(s)
	s.Name = strings.TrimSuffix(s.Name, "/slow-callbacks") + "/slow-app"
	for i := range s.Insts {
		s.Insts[i].SlowDemoteMetric = 120 * ms
	}
	return s
}

// healthLate: every instance has a health checker whose checks take 50 ms and succeed.
func healthLate(s *Scenario) *Scenario {
	s.Name += "/health-late"
	for i := range s.Insts {
		s.Insts[i].Health = []string{"late"}
	}
	return s
}

// connStopPlan: a monitored instance receives reconnect / disconnect+reconnect
// notifications and is stopped; the explorer moves the stop call to every choice point,
// in particular between the reads of the reconnect verification (C09: nothing is issued
// after the stop call has returned).
// takeover-round-then-stop: B (priority 2, takeover) follows an outside record of priority
// 3; the record is deleted and rewritten with priority 1 at one instant, so that the
// acquisition round started by the delete notification (a goroutine Stop does not wait for)
// finds the key taken, reads it and takes it over; B is stopped 250 ms later, and the
// explorer moves that stop between the issue and the answer of each operation of the round.
func scnTakeoverRoundThenStop(name string, k kfn) *Scenario {
	s := k(&Scenario{Name: name})
	s.Insts = []InstSpec{{ID: "B", Priority: 2, Takeover: true}}
	s.Script = []Item{
		{At: 0, Actor: "outside", Do: "put", Payload: `{"id":"Z","token":"tz","priority":3}`, Fixed: true},
		{At: 1 * ms, Actor: "startB", Do: "start", Inst: "B", Fixed: true},
		{At: 450 * ms, Actor: "outside", Do: "delete", Fixed: true},
		{At: 450 * ms, Actor: "outside", Do: "put", Payload: `{"id":"Y","token":"ty","priority":1}`, Fixed: true},
		{At: 700 * ms, Actor: "lifeB", Do: "stop", Inst: "B"},
	}
	s.Horizon = 700*ms + 3*s.H
	s = s.faultFree()
	s.SplitApply = true
	s.RandMenu = nil
	s.DevFrom, s.DevUntil = 500*ms, 720*ms
	return s
}

func connStopPlan(tier string) []PlanItem {
	g2 := 2*200*ms + 7*ms + 13*us
	var items []PlanItem
	items = append(items, PlanItem{scnTakeoverRoundThenStop("takeover-round-then-stop-K1", K1), 1})
	for _, seq := range [][]string{{"reconnect"}, {"disconnect", "reconnect"}} {
		for _, st := range []string{"stop", "stopctx"} {
			items = append(items, PlanItem{scnConn(seq, g2, "none", false, st), 1})
		}
	}
	return items
}

// failingStop: slow callbacks, and a horizon beyond the expiry of the record the stopped
// instance leaves behind (whatever the failed shutdown left of its claim must not outlive it).
func failingStop(s *Scenario) *Scenario {
	s = slowCallbacks(s)
	s.Name = strings.TrimSuffix(s.Name, "/slow-callbacks") + "/failing"
	s.Horizon += s.TTL + 2*s.H
	return s
}

// preempt-then-release: A (priority 1, watcher running because it followed X first) leads;
// B (priority 2, takeover) preempts it 20 ms after one of A's heartbeats, A's watcher demotes
// A at once; 20 ms later B shuts down with DeleteKey and A wins the vacant key again 55 ms
// after that: A's second term begins before the heartbeat loop of its first term has reached
// its next tick.
func scnPreemptThenRelease(name string, k kfn) *Scenario {
	s := k(&Scenario{Name: name})
	s.Insts = []InstSpec{{ID: "X", Priority: 1}, {ID: "A", Priority: 1}, {ID: "B", Priority: 2, Takeover: true}}
	s.Script = starts("X", "A")
	tDel := 1*s.H + 53*ms
	tTick := tDel + 55*ms + 2*s.H // A wins at tDel+55ms; its second heartbeat
	s.Script = append(s.Script,
		Item{At: tDel, Actor: "stopX", Do: "stopctx", Inst: "X", DeleteKey: true, Fixed: true},
		Item{At: tTick + 20*ms, Actor: "lifeB", Do: "start", Inst: "B"},
		Item{At: tTick + 40*ms, Actor: "lifeB", Do: "stopctx", Inst: "B", DeleteKey: true})
	s.Horizon = tTick + 5*s.H
	return s.faultFree()
}

// ctx-cancel: A leads, B follows; the context that was passed to A's Start is cancelled
// (the explorer moves the cancellation to every choice point); optionally Stop is called
// 150 ms later, as an application that cancels first and cleans up afterwards would do.
func scnCtxCancel(name string, k kfn, thenStop bool) *Scenario {
	s := k(&Scenario{Name: name})
	s.Insts = insts("A", "B")
	s.Script = starts("A", "B")
	t := 2*s.H + 37*ms
	s.Script = append(s.Script, Item{At: t, Actor: "lifeA", Do: "cancelctx", Inst: "A"})
	if thenStop {
		s.Script = append(s.Script, Item{At: t + 150*ms, Actor: "lifeA", Do: "stop", Inst: "A"})
	}
	s.Horizon = t + s.TTL + 900*ms
	s = s.faultFree()
	s.SplitApply = true
	return s
}

// longDemote: the stopped leader's OnDemote callback takes longer than the record's TTL
// plus a failover (the shutdown waits for it: WaitForDemote), so whatever the shutdown does
// after the callback happens when a successor already leads.
func longDemote(s *Scenario) *Scenario {
	s.Name += "/ondemote-outlasts-ttl"
	for i := range s.Insts {
		s.Insts[i].DemoteDur = s.TTL + 700*ms
	}
	s.Horizon += s.TTL + 700*ms + 1500*ms
	return s
}

// splitReplies: replies may arrive later than the store applied the operation (apply: and
// rdelay: deviations), with deviations restricted to [from, until].
func splitReplies(s *Scenario, from, until time.Duration) *Scenario {
	s.Name += "/split-replies"
	s.SplitApply = true
	s.RandMenu = nil
	s.DevFrom, s.DevUntil = from, until
	return s
}

// restart-after-hung-stop: A leads, B and C follow. One request of B's watch loop may hang
// for ever (the only deviation offered); B is stopped at 600 ms (Stop gives up waiting for
// the hung goroutine after its 5 s) and started again at 5.7 s; A shuts down with DeleteKey
// at 6 s and somebody else takes over: B has to follow the new leader.
func scnRestartAfterHungStop(name string, k kfn) *Scenario {
	s := k(&Scenario{Name: name})
	s.Insts = insts("A", "B", "C")
	s.Script = starts("A", "B", "C")
	s.Script = append(s.Script,
		Item{At: 600 * ms, Actor: "lifeB", Do: "stop", Inst: "B", Fixed: true},
		Item{At: 5700 * ms, Actor: "lifeB", Do: "start", Inst: "B", Fixed: true},
		Item{At: 6000*ms + 53*ms, Actor: "stopA", Do: "stopctx", Inst: "A", DeleteKey: true, Fixed: true})
	s.Horizon = 6053*ms + 2500*ms
	s.LatencyBound = 0
	s.AllowHang = true
	s.FaultLabels = []string{"pcheck", "watch"}
	s.OnlyInst = []string{"B"}
	s.NoTimeDev = true
	s.DevUntil = 600 * ms
	s.MaxSteps = 4000
	return s
}
