package harness

import (
	"bufio"
	"context"
	"encoding/json"
	"fmt"
	"os"
	"os/exec"
	"runtime"
	"sort"
	"strings"
	"sync"
	"syscall"
	"testing"
	"testing/synctest"
	"time"

	"github.com/ali-assar/NATS-Leader-Election/leader"
	"github.com/ali-assar/NATS-Leader-Election/verifshim/rt"
	"github.com/nats-io/nats.go"
	"github.com/prometheus/client_golang/prometheus"
	"go.uber.org/zap"
)

// C20: free-running race-detector pass over an exhaustively enumerated program space
// (DESIGN §5 C20). Built with -race and the real sync / sync/atomic packages.

// the 11 public methods, plus the two connection notifications (handed to the serial
// dispatcher at the same instant as the concurrent API calls) and the closing of the
// instance's watch channels
var c20Calls = []string{"Start", "Stop", "StopCtx", "IsLeader", "LeaderID", "Token", "Status", "Validate", "ValidateOrDemote", "OnPromote", "OnDemote", "NotifyD", "NotifyR", "WatchClosed"}
var c20Phases = []string{"fresh", "leading", "following", "restarted", "disconnected"}

type raceProgram struct {
	Phase   string     `json:"phase"`
	Callers [][]string `json:"callers"`
	Seed    int        `json:"seed"`
}

func (p raceProgram) String() string {
	var cs []string
	for _, c := range p.Callers {
		cs = append(cs, strings.Join(c, ";"))
	}
	return fmt.Sprintf("%s[%s]#%d", p.Phase, strings.Join(cs, " || "), p.Seed)
}

func c20Programs(tier string) []raceProgram {
	var progs []raceProgram
	seeds := []int{1, 2, 3}
	var callerSets [][][]string
	n := len(c20Calls)
	// all unordered pairs of single calls
	for i := 0; i < n; i++ {
		for j := i; j < n; j++ {
			callerSets = append(callerSets, [][]string{{c20Calls[i]}, {c20Calls[j]}})
		}
	}
	life := [][]string{{"Stop", "Start"}, {"StopCtx", "Start"}, {"Start", "Stop"}, {"Stop", "Stop"}, {"StopCtx", "StopCtx"}}
	if tier == "thorough" {
		seeds = []int{1, 2, 3, 4, 5}
		// all pairs of two-call sequences
		var seq2 [][]string
		for _, a := range c20Calls {
			for _, b := range c20Calls {
				seq2 = append(seq2, []string{a, b})
			}
		}
		for i := 0; i < len(seq2); i++ {
			for j := i; j < len(seq2); j++ {
				callerSets = append(callerSets, [][]string{seq2[i], seq2[j]})
			}
		}
		// all unordered triples of single calls
		for i := 0; i < n; i++ {
			for j := i; j < n; j++ {
				for k := j; k < n; k++ {
					callerSets = append(callerSets, [][]string{{c20Calls[i]}, {c20Calls[j]}, {c20Calls[k]}})
				}
			}
		}
	} else {
		for _, c := range c20Calls {
			for _, l := range life {
				callerSets = append(callerSets, [][]string{{c}, l})
			}
		}
		red := []string{"Stop", "StopCtx", "Start", "Status", "OnDemote", "ValidateOrDemote", "NotifyD", "NotifyR"}
		for i := 0; i < len(red); i++ {
			for j := i; j < len(red); j++ {
				for k := j; k < len(red); k++ {
					callerSets = append(callerSets, [][]string{{red[i]}, {red[j]}, {red[k]}})
				}
			}
		}
	}
	for _, ph := range c20Phases {
		for _, cs := range callerSets {
			for _, sd := range seeds {
				progs = append(progs, raceProgram{Phase: ph, Callers: cs, Seed: sd})
			}
		}
	}
	return progs
}

// ---------------------------------------------------------------- free-running store

type fStore struct {
	mu       sync.Mutex
	st       *Store
	epoch    time.Time
	watchers []*fWatcher
	n        int
	nUpd     int
	seed     int
}

type fWatcher struct {
	key  string
	inst string
	ch   chan leader.Entry
	stop bool
}

// closeWatchers: the Updates() channels of inst's open watches are closed (the client
// library does that when the subscription ends underneath the watcher).
func (s *fStore) closeWatchers(inst string) {
	s.mu.Lock()
	defer s.mu.Unlock()
	var keep []*fWatcher
	for _, w := range s.watchers {
		if w.inst == inst {
			close(w.ch)
		} else {
			keep = append(keep, w)
		}
	}
	s.watchers = keep
}

func (w *fWatcher) Updates() <-chan leader.Entry { return w.ch }
func (w *fWatcher) Stop()                        {}

type fKV struct {
	s    *fStore
	inst string
}

func (s *fStore) lat() time.Duration {
	s.n++
	// long enough that API calls regularly land while an operation is in flight
	return time.Duration(12+(s.n*7+s.seed*3)%23) * time.Millisecond
}

func (s *fStore) fan(m *Msg) {
	for _, w := range s.watchers {
		if w.key == m.Key {
			var e leader.Entry
			val := m.Val
			if m.Del {
				val = nil
			}
			e = &hEntry{key: m.Key, val: append([]byte(nil), val...), rev: m.Rev}
			select {
			case w.ch <- e:
			default:
			}
		}
	}
}

func (k *fKV) Create(key string, value []byte, opts ...interface{}) (uint64, error) {
	s := k.s
	s.mu.Lock()
	m, _, err := s.st.Create(key, value, time.Since(s.epoch), k.inst, "")
	if err == nil {
		s.fan(m)
	}
	l := s.lat()
	s.mu.Unlock()
	time.Sleep(l)
	if err != nil {
		return 0, err
	}
	return m.Rev, nil
}
func (k *fKV) Update(key string, value []byte, rev uint64, opts ...interface{}) (uint64, error) {
	s := k.s
	s.mu.Lock()
	m, _, err := s.st.Update(key, value, rev, time.Since(s.epoch), k.inst, "")
	if err == nil {
		s.fan(m)
	}
	l := s.lat()
	s.nUpd++
	if s.seed%3 == 1 && s.nUpd == 2 {
		// one reply per run outlasts the library's own time-out for a refresh
		// (max(H/2, 1 s)) and arrives afterwards: the abandoned call's late result
		l = 1200 * time.Millisecond
	}
	s.mu.Unlock()
	time.Sleep(l)
	if err != nil {
		return 0, err
	}
	return m.Rev, nil
}
func (k *fKV) Get(key string) (leader.Entry, error) {
	s := k.s
	s.mu.Lock()
	m, err := s.st.Get(key, time.Since(s.epoch))
	var e leader.Entry
	if err == nil {
		e = &hEntry{key: m.Key, val: append([]byte(nil), m.Val...), rev: m.Rev}
	}
	l := s.lat()
	s.mu.Unlock()
	time.Sleep(l)
	return e, err
}
func (k *fKV) Delete(key string) error {
	s := k.s
	s.mu.Lock()
	m, _ := s.st.Delete(key, time.Since(s.epoch), k.inst, "")
	s.fan(m)
	l := s.lat()
	s.mu.Unlock()
	time.Sleep(l)
	return nil
}
func (k *fKV) Watch(key string, opts ...interface{}) (leader.Watcher, error) {
	s := k.s
	s.mu.Lock()
	w := &fWatcher{key: key, inst: k.inst, ch: make(chan leader.Entry, 256)}
	if m := s.st.latest(key, time.Since(s.epoch)); m != nil {
		val := m.Val
		if m.Del {
			val = nil
		}
		w.ch <- &hEntry{key: m.Key, val: append([]byte(nil), val...), rev: m.Rev}
	}
	w.ch <- nil
	s.watchers = append(s.watchers, w)
	l := s.lat()
	s.mu.Unlock()
	time.Sleep(l)
	return w, nil
}

type fJS struct{ kv *fKV }

func (j *fJS) KeyValue(string) (leader.KeyValue, error) { return j.kv, nil }

type fProv struct {
	kv   *fKV
	conn *nats.Conn
}

func (p *fProv) JetStream() (leader.JetStreamContext, error) { return &fJS{p.kv}, nil }
func (p *fProv) NATSConnection() *nats.Conn                  { return p.conn }

type fMetrics struct{}

// yield lets the other goroutines of the program run in the middle of whatever critical
// section the library calls its metrics / logger from: callers that arrive meanwhile
// queue up on the library's mutexes, which is what makes lock-protected and unprotected
// accesses of different callers overlap in the race detector's happens-before graph.
func yield() {
	for i := 0; i < 6; i++ {
		runtime.Gosched()
	}
}

func (fMetrics) SetIsLeader(float64, prometheus.Labels)                    { yield() }
func (fMetrics) SetConnectionStatus(float64, prometheus.Labels)            { yield() }
func (fMetrics) IncTransitions(prometheus.Labels)                          { yield() }
func (fMetrics) IncFailures(prometheus.Labels)                             { yield() }
func (fMetrics) IncAcquireAttempts(prometheus.Labels)                      { yield() }
func (fMetrics) IncTokenValidationFailures(prometheus.Labels)              { yield() }
func (fMetrics) ObserveHeartbeatDuration(time.Duration, prometheus.Labels) { yield() }
func (fMetrics) ObserveLeaderDuration(time.Duration, prometheus.Labels)    { yield() }

type fLogger struct{}

func (fLogger) Debug(string, ...zap.Field) {}
func (fLogger) Info(string, ...zap.Field)  { yield() }
func (fLogger) Warn(string, ...zap.Field)  { yield() }
func (fLogger) Error(string, ...zap.Field) { yield() }
func (fLogger) Fatal(string, ...zap.Field) {}

// runRaceProgram executes one program free-running inside a bubble (virtual time).
func runRaceProgram(t *testing.T, p raceProgram) {
	synctest.Test(t, func(t *testing.T) {
		rt.FloatFn = func() float64 { return 0.5 }
		H := 200 * time.Millisecond
		st := &fStore{st: NewStore(3 * H), epoch: time.Now(), seed: p.Seed}
		mk := func(id string, monitored bool) (leader.Election, *nats.Conn) {
			prov := &fProv{kv: &fKV{s: st, inst: id}}
			var conn *nats.Conn
			if monitored {
				conn = &nats.Conn{}
				prov.conn = conn
			}
			var jp leader.JetStreamProvider = prov
			if !monitored {
				jp = &struct{ leader.JetStreamProvider }{prov} // hide NATSConnection
			}
			el, err := leader.NewElection(jp, leader.ElectionConfig{Bucket: "b", Group: "g", InstanceID: id, TTL: 3 * H, HeartbeatInterval: H,
				ValidationInterval: 233 * time.Millisecond, DisconnectGracePeriod: 2*H + 7*time.Millisecond, Metrics: fMetrics{}, Logger: fLogger{}})
			if err != nil {
				panic(err)
			}
			el.OnPromote(func(ctx context.Context, token string) { <-ctx.Done() })
			el.OnDemote(func() {})
			return el, conn
		}
		// the run context carries a correlation id (a documented input of the library's logging)
		root, cancel := context.WithCancel(context.WithValue(context.Background(), "correlation_id", "c20")) //nolint:staticcheck // the library looks the value up under this string key
		a, conn := mk("A", true)
		b, _ := mk("B", false)
		notify := make(chan string, 64)
		dispDone := make(chan struct{})
		go func() { // serial dispatcher, as in nats.go
			defer close(dispDone)
			for n := range notify {
				d, r, _ := connHandlers(conn)
				switch n {
				case "D":
					if d != nil {
						d(conn)
					}
				case "R":
					if r != nil {
						r(conn)
					}
				}
			}
		}()
		switch p.Phase {
		case "fresh":
		case "leading":
			a.Start(root)
			time.Sleep(300 * time.Millisecond)
			b.Start(root)
			time.Sleep(50 * time.Millisecond)
		case "following":
			b.Start(root)
			time.Sleep(100 * time.Millisecond)
			a.Start(root)
			time.Sleep(250 * time.Millisecond)
		case "restarted":
			a.Start(root)
			time.Sleep(250 * time.Millisecond)
			a.Stop()
			a.Start(root)
			time.Sleep(30 * time.Millisecond)
		case "disconnected":
			a.Start(root)
			time.Sleep(300 * time.Millisecond)
			notify <- "D"
			time.Sleep(20 * time.Millisecond)
		}
		// the callers start at a seed-dependent offset so that, over the seeds, calls land
		// before, inside and after in-flight store operations of the background goroutines
		time.Sleep(time.Duration((p.Seed-1)*37) * time.Millisecond)
		var wg sync.WaitGroup
		for ci, calls := range p.Callers {
			wg.Add(1)
			go func(ci int, calls []string) {
				defer wg.Done()
				for k, c := range calls {
					if k > 0 {
						time.Sleep(time.Duration(3+2*ci) * time.Millisecond)
					}
					switch c {
					case "NotifyD":
						notify <- "D"
					case "NotifyR":
						notify <- "R"
					case "WatchClosed":
						st.closeWatchers("A")
					default:
						c20Call(a, root, c)
					}
				}
			}(ci, calls)
		}
		// connection notifications and the competitor keep going meanwhile
		wg.Add(1)
		go func() {
			defer wg.Done()
			if p.Phase == "disconnected" || p.Seed%2 == 0 {
				time.Sleep(40 * time.Millisecond)
				notify <- "R"
				time.Sleep(150 * time.Millisecond)
				notify <- "D"
			}
		}()
		wg.Wait()
		time.Sleep(1700 * time.Millisecond) // past the late reply and the refresh that follows it
		a.Stop()
		b.Stop()
		cancel()
		close(notify)
		<-dispDone
		time.Sleep(10 * time.Second)
	})
}

func c20Call(el leader.Election, root context.Context, c string) {
	ctx, cancel := context.WithTimeout(context.Background(), 500*time.Millisecond)
	defer cancel()
	switch c {
	case "Start":
		el.Start(root)
	case "Stop":
		el.Stop()
	case "StopCtx":
		el.StopWithContext(ctx, leader.StopOptions{DeleteKey: true, WaitForDemote: true, Timeout: 400 * time.Millisecond})
	case "IsLeader":
		el.IsLeader()
	case "LeaderID":
		el.LeaderID()
	case "Token":
		el.Token()
	case "Status":
		el.Status()
	case "Validate":
		el.ValidateToken(ctx)
	case "ValidateOrDemote":
		el.ValidateTokenOrDemote(ctx)
	case "OnPromote":
		el.OnPromote(func(ctx context.Context, token string) { <-ctx.Done() })
	case "OnDemote":
		el.OnDemote(func() {})
	}
}

// ---------------------------------------------------------------- worker (race build)

type raceResult struct {
	Program raceProgram `json:"program"`
	Reports []string    `json:"reports,omitempty"`
	Panic   string      `json:"panic,omitempty"`
}

// RaceWorkerMain: programs (JSON lines) on stdin; race reports are read back from the
// process's own stderr (redirected to a file) after each program.
func RaceWorkerMain(t *testing.T, logPath string) {
	f, err := os.OpenFile(logPath, os.O_RDWR|os.O_CREATE|os.O_TRUNC, 0o644)
	if err != nil {
		fmt.Fprintln(os.Stderr, "race worker:", err)
		os.Exit(4)
	}
	if err := syscall.Dup2(int(f.Fd()), 2); err != nil {
		os.Exit(4)
	}
	in := bufio.NewReaderSize(os.Stdin, 1<<20)
	out := bufio.NewWriter(os.Stdout)
	var off int64
	for {
		line, err := in.ReadBytes('\n')
		if len(line) > 0 {
			var p raceProgram
			if e := json.Unmarshal(line, &p); e != nil {
				os.Exit(4)
			}
			res := raceResult{Program: p}
			// a subtest per program: when the race detector fires, testing marks the bubble's
			// T as failed and synctest.Test calls FailNow on the T it was given
			t.Run("p", func(st *testing.T) {
				defer func() {
					if r := recover(); r != nil {
						if s := fmt.Sprint(r); !strings.Contains(s, "blocked goroutines remain") {
							res.Panic = s
						} else {
							res.Panic = "deadlock: " + s
						}
					}
				}()
				runRaceProgram(st, p)
			})
			st, _ := f.Stat()
			if st.Size() > off {
				buf := make([]byte, st.Size()-off)
				f.ReadAt(buf, off)
				off = st.Size()
				for _, rep := range strings.Split(string(buf), "==================") {
					if strings.Contains(rep, "WARNING: DATA RACE") {
						res.Reports = append(res.Reports, rep)
					}
				}
			}
			b, _ := json.Marshal(res)
			out.Write(b)
			out.WriteByte('\n')
			out.Flush()
		}
		if err != nil {
			return
		}
	}
}

// raceSig normalises a report. The signature names the shared variable (the struct
// field assigned at the writing site, read from the source line the report points to)
// and the writing function; the many reading sites of one unsynchronised field all map
// to the same signature. When no field can be determined it falls back to the unordered
// pair of (access kind, innermost library function).
func raceSig(rep string) (sig string, lib bool) {
	type acc struct {
		kind, fn, file string
		line           int
	}
	var accs []acc
	lines := strings.Split(rep, "\n")
	for i, l := range lines {
		l = strings.TrimSpace(l)
		kind := ""
		switch {
		case strings.HasPrefix(l, "Write at"), strings.HasPrefix(l, "Previous write at"):
			kind = "write"
		case strings.HasPrefix(l, "Read at"), strings.HasPrefix(l, "Previous read at"):
			kind = "read"
		case strings.HasPrefix(l, "Atomic write at"), strings.HasPrefix(l, "Previous atomic write at"):
			kind = "atomic-write"
		case strings.HasPrefix(l, "Atomic read at"), strings.HasPrefix(l, "Previous atomic read at"):
			kind = "atomic-read"
		}
		if kind == "" {
			continue
		}
		a := acc{kind: kind, fn: "?"}
		for k := i + 1; k < len(lines); k++ {
			m := strings.TrimSpace(lines[k])
			if m == "" {
				break
			}
			if j := strings.Index(m, leaderPkg); j >= 0 && !strings.HasPrefix(m, "/") {
				fn := m[j+len(leaderPkg):]
				if q := strings.LastIndex(fn, "("); q > 0 {
					fn = fn[:q]
				}
				for strings.Contains(fn, ".func") {
					fn = fn[:strings.LastIndex(fn, ".func")]
				}
				for strings.Contains(fn, ".gowrap") {
					fn = fn[:strings.LastIndex(fn, ".gowrap")]
				}
				a.fn = fn
				if k+1 < len(lines) {
					loc := strings.TrimSpace(lines[k+1])
					if sp := strings.Index(loc, " "); sp > 0 {
						loc = loc[:sp]
					}
					if c := strings.LastIndex(loc, ":"); c > 0 {
						a.file = loc[:c]
						fmt.Sscanf(loc[c+1:], "%d", &a.line)
					}
				}
				lib = true
				break
			}
		}
		accs = append(accs, a)
	}
	srcLine := func(a acc) string {
		if a.file == "" || a.line <= 0 {
			return ""
		}
		file := a.file
		// seed evaluation (VERIF_SRC): the overlay compiles another tree's sources under
		// /repo's paths; the line numbers of the report refer to that tree
		if alt := os.Getenv("VERIF_SRC"); alt != "" {
			repo := os.Getenv("VERIF_REPO")
			if repo == "" {
				repo = "/repo"
			}
			if strings.HasPrefix(file, repo+"/") {
				file = alt + file[len(repo):]
			}
		}
		b, err := os.ReadFile(file)
		if err != nil {
			return ""
		}
		ls := strings.Split(string(b), "\n")
		if a.line > len(ls) {
			return ""
		}
		return ls[a.line-1]
	}
	// field assigned at a writing site
	field := ""
	writer := ""
	for _, a := range accs {
		if !strings.Contains(a.kind, "write") || a.fn == "?" {
			continue
		}
		src := srcLine(a)
		if eq := strings.Index(src, "="); eq > 0 && !strings.Contains(src[:eq], "(") {
			lhs := src[:eq]
			var cands []string
			for _, tok := range strings.FieldsFunc(lhs, func(r rune) bool { return r == ',' || r == ' ' || r == '\t' || r == ':' }) {
				if dot := strings.LastIndex(tok, "."); dot > 0 {
					cands = append(cands, tok[dot+1:])
				}
			}
			for _, c := range cands {
				for _, b := range accs {
					if b != a && strings.Contains(srcLine(b), "."+c) {
						field = c
					}
				}
			}
			if field == "" && len(cands) > 0 {
				field = cands[0]
			}
		}
		if field != "" {
			writer = a.fn
			break
		}
	}
	if field != "" {
		return "race/field:" + field + "/write:" + writer, lib
	}
	var parts []string
	for _, a := range accs {
		parts = append(parts, a.kind+":"+a.fn)
	}
	sort.Strings(parts)
	return "race/" + strings.Join(parts, "|"), lib
}

func c20Direct(c *CheckCtx) {
	progs := c20Programs(c.Tier)
	if c.Seed != 0 && len(progs) > 0 {
		k := c.Seed % len(progs)
		if k < 0 {
			k = -k
		}
		progs = append(progs[k:], progs[:k]...)
	}
	nw := c.Workers
	if nw == 0 {
		nw = 16
	}
	type job struct{ p raceProgram }
	ch := make(chan raceProgram, 256)
	var mu sync.Mutex
	done, reports, harnessRaces, panics := 0, 0, 0, 0
	distinct := map[string]bool{}
	var samples []any
	deadline := time.Time{}
	if c.Budget > 0 {
		deadline = c.start.Add(c.Budget)
	}
	var wg sync.WaitGroup
	for w := 0; w < nw; w++ {
		wg.Add(1)
		go func(w int) {
			defer wg.Done()
			var cmd *exec.Cmd
			var stdin *bufio.Writer
			var stdout *bufio.Reader
			var closeIn func()
			start := func() bool {
				logf := fmt.Sprintf("%s/race-worker-%d.log", c.Dir, w)
				cmd = exec.Command(c.Exe, "-test.run", "^TestRaceWorker$", "-test.timeout", "0", "-mcx.raceworker", "-mcx.racelog", logf)
				cmd.Env = append(os.Environ(), "GORACE=halt_on_error=0", "GOMAXPROCS=4")
				in, _ := cmd.StdinPipe()
				so, _ := cmd.StdoutPipe()
				if err := cmd.Start(); err != nil {
					return false
				}
				stdin, stdout = bufio.NewWriter(in), bufio.NewReaderSize(so, 1<<20)
				closeIn = func() { in.Close() }
				return true
			}
			if !start() {
				return
			}
			for p := range ch {
				if !deadline.IsZero() && time.Now().After(deadline) {
					mu.Lock()
					c.capped = true
					mu.Unlock()
					continue
				}
				b, _ := json.Marshal(p)
				stdin.Write(append(b, '\n'))
				stdin.Flush()
				line, err := stdout.ReadBytes('\n')
				if err != nil {
					// worker died (library panic outside a bubble root, fatal error)
					cmd.Wait()
					mu.Lock()
					panics++
					c.mu.Lock()
					c.harnessErrs++
					c.mu.Unlock()
					mu.Unlock()
					if !start() {
						return
					}
					continue
				}
				var r raceResult
				if json.Unmarshal(line, &r) != nil {
					continue
				}
				mu.Lock()
				done++
				distinct[fmt.Sprintf("%s|%v", r.Program.Phase, r.Program.Callers)] = true
				if len(samples) < 3 && done%997 == 1 {
					samples = append(samples, map[string]any{"program": r.Program.String(), "race_reports": len(r.Reports)})
				}
				mu.Unlock()
				if strings.HasPrefix(r.Panic, "deadlock") {
					c.DirectViolation("deadlock-in-free-run", fmt.Sprintf("program %s ended with blocked library goroutines: %s", r.Program, r.Panic), r.Program)
				} else if r.Panic != "" {
					c.DirectViolation("panic-in-free-run", fmt.Sprintf("program %s: %s", r.Program, r.Panic), r.Program)
				}
				for _, rep := range r.Reports {
					sig, lib := raceSig(rep)
					mu.Lock()
					reports++
					mu.Unlock()
					if !lib {
						mu.Lock()
						harnessRaces++
						mu.Unlock()
						fmt.Fprintf(os.Stderr, "check: race report without a library frame (harness race, not a violation):\n%s\n", rep)
						continue
					}
					c.DirectViolation(sig, fmt.Sprintf("data race reported while running program %s:\n%s", r.Program, strings.TrimSpace(rep)), map[string]any{"program": r.Program, "report": rep})
				}
			}
			closeIn()
			cmd.Wait()
		}(w)
	}
	for _, p := range progs {
		ch <- p
	}
	close(ch)
	wg.Wait()
	c.extra["evaluations"] = done
	c.extra["distinct_nontrivial"] = len(distinct)
	c.extra["programs_enumerated"] = len(progs)
	c.extra["race_reports"] = reports
	c.extra["harness_race_reports"] = harnessRaces
	c.extra["worker_deaths"] = panics
	c.extra["samples"] = samples
	c.extra["exhaustive"] = done == len(progs) && !c.capped
	if harnessRaces > 0 {
		c.capped = true
	}
}

func init() {
	props["C20"] = &propDef{
		Level:  "exploration",
		Rule:   "the program space is enumerated exhaustively: concurrent API callers on one election (quick: all unordered pairs of single calls over the 11 public methods, the two connection notifications and the closing of the instance's watch channels, each call against five lifecycle two-call sequences, triples over a reduced alphabet; thorough: all pairs of two-call sequences and all triples of single calls) x five phases (fresh, leading, following, restarted, disconnected) x latency seeds, plus a serial connection-notification dispatcher and a competing instance; every program is executed free-running (real sync/atomic, -race, virtual time) and the verdict on each execution is the Go race detector's; evaluations = executions, distinct_nontrivial = distinct (phase, caller set) programs executed",
		Assume: []string{"the decision step per execution is dynamic (happens-before) race detection, not enumeration of memory-model interleavings", "locks of the harness store add happens-before edges that can hide a race the real client would expose", "two connection callbacks never run concurrently (nats.go dispatches them serially)"},
		Direct: c20Direct,
	}
}
