package harness

import "time"

// Fine-mode scenarios (DESIGN §2.4): the coarse prefix places the system in the
// interesting situation, the window interleaves the two or three goroutines involved.

// fineAcquire: a concurrent API call (Status, Stop, StopWithContext, ValidateTokenOrDemote)
// starts at the very moment the initial Create is answered, i.e. races with becomeLeader.
func fineAcquire(name string, call Item) *Scenario {
	s := K1(&Scenario{Name: name})
	s.Insts = insts("A")
	s.Script = starts("A")
	call.Actor, call.Inst, call.Manual, call.At = "api", "A", true, time.Hour
	s.Script = append(s.Script, call)
	s.FineAt = "ok:A.acquire.Create#1"
	s.FineFire = []int{1}
	s.FinePts = 400
	s.Horizon = 2*s.H + 50*ms
	s.LatencyBound = s.H/2 - ms
	s.MaxSteps = 2500
	return s
}

// fineDemote: a concurrent API call races with a heartbeat-failure demotion (the record
// was replaced by an outside writer, the next refresh gets the conflict error).
func fineDemote(name string, call Item) *Scenario {
	s := K1(&Scenario{Name: name})
	s.Insts = insts("A")
	s.Script = starts("A")
	s.Script = append(s.Script, Item{At: 1*s.H + 50*ms, Actor: "outside", Do: "put", Payload: `{"id":"X","token":"tok-x","priority":0}`, Fixed: true})
	call.Actor, call.Inst, call.Manual, call.At = "api", "A", true, time.Hour
	s.Script = append(s.Script, call)
	s.FineAt = "ok:A.hb.Update#2"
	s.FineFire = []int{2}
	s.FinePts = 400
	s.Horizon = 3*s.H + 50*ms
	s.LatencyBound = s.H/2 - ms
	s.MaxSteps = 2500
	return s
}

// fineGraceStop: Stop is called at the very instant the disconnect grace period
// expires (lock order e.mu -> d.mu against d.mu -> e.mu).
func fineGraceStop(name string, stop Item) *Scenario {
	s := K1(&Scenario{Name: name})
	grace := 2*s.H + 7*ms + 13*us
	s.Insts = []InstSpec{{ID: "A", Monitored: true, Grace: grace}}
	s.Script = starts("A")
	tD := 1*s.H + 47*ms + 11*us
	s.Script = append(s.Script, Item{At: tD, Actor: "conn", Do: "disconnect", Inst: "A", Fixed: true})
	stop.Actor, stop.Inst, stop.At, stop.Fixed = "life", "A", tD+grace, true
	s.Script = append(s.Script, stop)
	s.FineAt = "ok:A.hb.Update#3" // the last heartbeat before the expiry at tD+grace
	s.FinePts = 600
	s.Horizon = tD + grace + 2*s.H
	s.LatencyBound = s.H/2 - ms
	s.MaxSteps = 3000
	s.Tags = map[string]string{"c11": "fine"}
	return s
}

// fineVerify: a disconnect notification arrives while the reconnect verification is
// finishing (dispatcher against the verification goroutine).
func fineVerify(name string) *Scenario {
	s := K1(&Scenario{Name: name})
	grace := 2*s.H + 7*ms + 13*us
	s.Insts = []InstSpec{{ID: "A", Monitored: true, Grace: grace}}
	s.Script = starts("A")
	tR := 1*s.H + 47*ms + 11*us
	s.Script = append(s.Script, Item{At: tR - 20*ms, Actor: "conn", Do: "disconnect", Inst: "A", Fixed: true},
		Item{At: tR, Actor: "conn", Do: "reconnect", Inst: "A", Fixed: true},
		Item{At: time.Hour, Actor: "conn2", Do: "disconnect", Inst: "A", Manual: true})
	s.FineAt = "ok:A.validate.Get#2" // the verification's token read (the first validate read is the periodic one at 234ms)
	s.FineFire = []int{3}
	s.FinePts = 600
	s.Horizon = tR + 100*ms + grace + 2*s.H
	s.LatencyBound = s.H/2 - ms
	s.MaxSteps = 3000
	s.Tags = map[string]string{"c11": "faultfree"}
	return s
}

// fineStopDisconnect: a disconnect notification (dispatcher goroutine) is handled while
// Stop / StopWithContext (application goroutine) runs on the leading instance.
func fineStopDisconnect(name string, stop Item) *Scenario {
	s := K1(&Scenario{Name: name})
	grace := 2*s.H + 7*ms + 13*us
	s.Insts = []InstSpec{{ID: "A", Monitored: true, Grace: grace}}
	s.Script = starts("A")
	stop.Actor, stop.Inst, stop.At, stop.Manual = "life", "A", time.Hour, true
	s.Script = append(s.Script,
		Item{At: time.Hour, Actor: "conn", Do: "disconnect", Inst: "A", Manual: true},
		stop)
	s.FineAt = "ok:A.hb.Update#1"
	s.FineFire = []int{1, 2}
	s.FinePts = 600
	s.Horizon = 1*s.H + grace + 2*s.H
	s.LatencyBound = s.H/2 - ms
	s.MaxSteps = 3000
	s.Tags = map[string]string{"c11": "fine"}
	return s
}

// fineTwoWinners: two acquisition rounds of B have their Creates in flight together; the
// window opens when the first one wins. Inside it the outside delete (movable) and the
// answer of the second Create are available as coarse events, so that the second winner
// can run up to becomeLeader before the first one has got there.
func fineTwoWinners(name string) *Scenario {
	s := scnTwoRoundsThenDelete(name, K1)
	s.FineAt = "create-wins:B"
	s.FinePts = 400
	s.MaxSteps = 3000
	s.RandMenu = nil
	s.DelayMenu = nil
	s.AllowDup = false
	s.Horizon = 750*ms + 2*s.H
	return s
}

// fineCancelStop: the context passed to Start is cancelled and Stop / StopWithContext is
// called right behind it (`cancel(); election.Stop()`): the stop call and the library's
// clean-up for the ended run context race for the election mutex.
func fineCancelStop(name string, stop Item) *Scenario {
	s := K1(&Scenario{Name: name})
	s.Insts = insts("A")
	s.Script = starts("A")
	stop.Actor, stop.Inst, stop.At, stop.Manual = "life2", "A", time.Hour, true
	// (the window opens at a Status() call between two heartbeats: opening it at the answer
	// of a refresh would leave the heartbeat's select with two ready cases, the reply and the
	// cancelled context, and Go picks one at random)
	s.Script = append(s.Script,
		Item{At: time.Hour, Actor: "life1", Do: "cancelctx", Inst: "A", Manual: true},
		stop,
		Item{At: 1*s.H + 61*ms, Actor: "probe", Do: "status", Inst: "A", Fixed: true})
	s.FineAt = "fire:status:A@3"
	s.FineFire = []int{1, 2}
	s.FinePts = 500
	s.Horizon = 3 * s.H
	if stop.Do == "start" {
		// `cancel(); election.Start(newCtx)`: the restarted instance follows its own old
		// record until that has lapsed, then leads again
		s.Horizon = 1*s.H + 61*ms + s.TTL + 3*s.H
	}
	s.LatencyBound = s.H/2 - ms
	s.MaxSteps = 3000
	return s
}

// fineFailover: B wins the election after A's graceful stop; the window starts when B's
// winning Create is answered, so that late / duplicated watch notifications about A's
// record (coarse events, available as alternatives inside the window) interleave with
// becomeLeader at the level of single atomic operations.
func fineFailover(name string) *Scenario {
	s := scnFailoverDel(name, K1, "A", "B")
	s.FineAt = "create-wins:B"
	s.FinePts = 500
	s.MaxSteps = 3000
	s.MoveScript = false
	s.SplitApply = false
	s.RandMenu = nil
	s.DelayMenu = nil
	s.AllowDup = true
	return s
}

// finePreemptTwoDetectors: A (priority 1) leads with its watcher still running (it
// followed X first), B (priority 2, takeover) preempts it. The notification of B's record
// is held back; the window opens when A's next heartbeat gets the conflict, so that the
// watcher path (delivery of the held event) and the heartbeat-failure path detect the same
// loss concurrently.
func finePreemptTwoDetectors(name string) *Scenario {
	s := K1(&Scenario{Name: name})
	s.Insts = []InstSpec{{ID: "X", Priority: 1}, {ID: "A", Priority: 1}, {ID: "B", Priority: 2, Takeover: true}}
	s.Script = starts("X", "A")
	tDel := 1*s.H + 53*ms
	tB := tDel + 2*s.H + 31*ms
	s.Script = append(s.Script,
		Item{At: tDel, Actor: "stopX", Do: "stopctx", Inst: "X", DeleteKey: true, Fixed: true},
		Item{At: tB, Actor: "startB", Do: "start", Inst: "B", Fixed: true})
	s.HoldWatch = true
	s.OnlyInst = []string{"A"}
	s.FineAt = "hb-after-takeover:A"
	s.FinePts = 600
	s.MaxSteps = 4000
	s.Horizon = tB + 3*s.H
	s.LatencyBound = s.H/2 - ms
	return s
}

func finePlan(prop, tier string) []PlanItem {
	// two preemptions already in the quick tier: the windows are short (60-170 points)
	// and most two-cause races need one preemption to let the first cause run and a second
	// one to overtake its follow-up; thorough adds a third
	p := 2
	if tier == "thorough" {
		p = 3
	}
	var items []PlanItem
	switch prop {
	case "C18", "C05":
		items = append(items,
			PlanItem{fineAcquire("fine/status-vs-becomeLeader", Item{Do: "status"}), p},
			PlanItem{fineDemote("fine/status-vs-demotion", Item{Do: "status"}), p},
			PlanItem{fineAcquire("fine/stop-vs-becomeLeader", Item{Do: "stop"}), p},
			PlanItem{fineTwoWinners("fine/two-winners-of-one-instance"), p})
	case "C02":
		// a stop that loses the race leaves a claim behind: watched until the record has lapsed
		long := fineAcquire("fine/stop-vs-becomeLeader-then-expiry", Item{Do: "stop"})
		long.Horizon = long.TTL + 3*long.H
		items = append(items, PlanItem{long, p})
		// no outside writer here: C02 assumes that only the elections touch the record
		items = append(items,
			PlanItem{fineAcquire("fine/stop-vs-becomeLeader", Item{Do: "stop"}), p},
			PlanItem{fineAcquire("fine/stopctx-vs-becomeLeader", Item{Do: "stopctx", DeleteKey: true}), p},
			PlanItem{fineGraceStop("fine/stop-vs-grace-expiry", Item{Do: "stop"}), p},
			PlanItem{fineCancelStop("fine/cancelctx-then-start", Item{Do: "start"}), p})
	case "C09":
		items = append(items,
			PlanItem{fineAcquire("fine/stop-vs-becomeLeader", Item{Do: "stop"}), p},
			PlanItem{fineAcquire("fine/stopctx-vs-becomeLeader", Item{Do: "stopctx", DeleteKey: true}), p},
			PlanItem{fineDemote("fine/stop-vs-demotion", Item{Do: "stop"}), p},
			PlanItem{fineGraceStop("fine/stop-vs-grace-expiry", Item{Do: "stop"}), p},
			PlanItem{fineGraceStop("fine/stopctx-vs-grace-expiry", Item{Do: "stopctx", DeleteKey: true}), p},
			PlanItem{fineStopDisconnect("fine/stop-vs-disconnect", Item{Do: "stop"}), p},
			PlanItem{fineStopDisconnect("fine/stopctx-vs-disconnect", Item{Do: "stopctx", DeleteKey: true}), p})
	case "C07":
		items = append(items, PlanItem{fineFailover("fine/failover-watch-vs-becomeLeader"), p})
		late := fineFailover("fine/failover-late-watch-vs-becomeLeader")
		late.HoldWatch = true
		late.Horizon += 600 * ms
		items = append(items, PlanItem{late, p})
	case "C08", "C19":
		items = append(items, PlanItem{fineTwoWinners("fine/two-winners-of-one-instance"), p},
			PlanItem{fineCancelStop("fine/cancelctx-then-stop", Item{Do: "stop"}), p},
			PlanItem{fineCancelStop("fine/cancelctx-then-stopctx", Item{Do: "stopctx", DeleteKey: true}), p},
			PlanItem{fineCancelStop("fine/cancelctx-then-start", Item{Do: "start"}), p})
		if prop == "C19" {
			// a demotion that needs no store operation (ValidateTokenOrDemote with an already
			// cancelled context) racing with the promotion and its callback goroutine
			items = append(items, PlanItem{fineAcquire("fine/cancelled-validateOrDemote-vs-becomeLeader", Item{Do: "validateOrDemote", CtxTimeout: -1}), p})
		}
		items = append(items,
			PlanItem{finePreemptTwoDetectors("fine/watch-demotion-vs-heartbeat-conflict"), p},
			PlanItem{fineDemote("fine/validateOrDemote-vs-demotion", Item{Do: "validateOrDemote"}), p},
			PlanItem{fineDemote("fine/stop-vs-demotion", Item{Do: "stop"}), p},
			PlanItem{fineAcquire("fine/stop-vs-becomeLeader", Item{Do: "stop"}), p})
	case "C11":
		items = append(items,
			PlanItem{fineGraceStop("fine/stop-vs-grace-expiry", Item{Do: "stop"}), p},
			PlanItem{fineGraceStop("fine/stopctx-vs-grace-expiry", Item{Do: "stopctx", DeleteKey: true}), p},
			PlanItem{fineVerify("fine/disconnect-vs-verification"), p},
			PlanItem{fineStopDisconnect("fine/stop-vs-disconnect", Item{Do: "stop"}), p},
			PlanItem{fineStopDisconnect("fine/stopctx-vs-disconnect", Item{Do: "stopctx", DeleteKey: true}), p})
	}
	return items
}
