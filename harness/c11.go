package harness

import (
	"fmt"
	"strings"
	"time"
)

// C11: disconnect grace period and reconnect verification.

func c11Seqs(maxLen int) [][]string {
	var out [][]string
	var gen func(cur []string)
	gen = func(cur []string) {
		if len(cur) > 0 {
			out = append(out, append([]string{}, cur...))
		}
		if len(cur) == maxLen {
			return
		}
		for _, n := range []string{"disconnect", "reconnect", "closed"} {
			gen(append(cur, n))
		}
	}
	gen(nil)
	return out
}

func effGrace(g, h time.Duration) time.Duration {
	if g != 0 {
		return g
	}
	g = 3 * h
	if g < 5*time.Second {
		g = 5 * time.Second
	}
	return g
}

func scnConn(seq []string, grace time.Duration, change string, partition bool, stop string) *Scenario {
	short := ""
	for _, n := range seq {
		short += strings.ToUpper(n[:1])
	}
	s := K1(&Scenario{Name: fmt.Sprintf("conn/%s/grace%v/%s/part%v/%s", short, grace, change, partition, stop)})
	if grace == 0 {
		// the 5s default is a multiple of 200ms: use H=210ms so that a timer armed at a
		// heartbeat instant never expires at another heartbeat instant
		s.H, s.TTL = 210*ms, 640*ms
	}
	s.Insts = []InstSpec{{ID: "A", Monitored: true, Grace: grace}}
	s.Script = starts("A")
	t := 1*s.H + 47*ms + 11*us
	gap := 157*ms + 3*us
	first, last := t, t
	for i, n := range seq {
		at := t + time.Duration(i)*gap
		s.Script = append(s.Script, Item{At: at, Actor: "conn", Do: n, Inst: "A"})
		last = at
	}
	switch change {
	case "usurper":
		s.Script = append(s.Script, Item{At: first + 31*ms, Actor: "outside", Do: "put", Payload: `{"id":"X","token":"tok-x","priority":0}`})
	case "expire":
		s.Script = append(s.Script, Item{At: first + 31*ms, Actor: "outside", Do: "expire"})
	}
	if partition {
		s.Script = append(s.Script, Item{At: first - 3*ms, Actor: "chaos", Do: "partition", Inst: "A"}, Item{At: last + 5*ms, Actor: "chaos", Do: "heal", Inst: "A"})
		s.PartitionTimeout = 1500 * ms
	}
	eg := effGrace(grace, s.H)
	s.Horizon = last + eg + 3*s.H
	switch stop {
	case "stop":
		s.Script = append(s.Script, Item{At: last + eg - 13*ms, Actor: "life", Do: "stop", Inst: "A"})
	case "stopctx":
		s.Script = append(s.Script, Item{At: last + 61*ms, Actor: "life", Do: "stopctx", Inst: "A", DeleteKey: true})
	}
	s.MaxSteps = 3000
	s.LatencyBound = s.H/2 - ms
	s.DelayMenu = []time.Duration{s.H/2 - 2*ms}
	s.MoveScript = true
	s.Tags = map[string]string{"c11": "faultfree", "change": change}
	if partition {
		s.Tags["c11"] = "partition"
	}
	if change != "none" {
		s.AllowErr = nil
	}
	// deviations only from the first notification on
	s.DevFrom = first - 5*ms
	return s
}

// scnConnFlap: the connection flaps while a reconnect verification is in flight:
// reconnect, then (20 ms after the verification's reads) disconnect, an outside party takes
// the record, reconnect again 20 ms later. Replies may arrive later than the store applied
// the operation, so that the first verification can still be waiting for its reply when the
// second reconnect is handled.
func scnConnFlap(grace time.Duration) *Scenario {
	s := K1(&Scenario{Name: fmt.Sprintf("conn-flap/grace%v", grace)})
	s.Insts = []InstSpec{{ID: "A", Monitored: true, Grace: grace}}
	s.Script = starts("A")
	t := 1*s.H + 47*ms + 11*us
	s.Script = append(s.Script,
		Item{At: t, Actor: "conn", Do: "reconnect", Inst: "A", Fixed: true},
		Item{At: t + 120*ms, Actor: "conn", Do: "disconnect", Inst: "A", Fixed: true},
		Item{At: t + 125*ms, Actor: "outside", Do: "put", Payload: `{"id":"X","token":"tok-x","priority":0}`, Fixed: true},
		Item{At: t + 140*ms, Actor: "conn", Do: "reconnect", Inst: "A", Fixed: true})
	s.Horizon = t + 140*ms + effGrace(grace, s.H) + 3*s.H
	s.MaxSteps = 3000
	s.LatencyBound = s.H/2 - ms
	s.DelayMenu = []time.Duration{s.H/2 - 2*ms}
	s.SplitApply = true
	s.Tags = map[string]string{"c11": "changed", "change": "usurper"}
	s.DevFrom = t - 5*ms
	return s
}

// scnConnReelect: an outage that outlives a term. A leads and gets a disconnect
// notification; during the outage an outside party takes the record (A's next heartbeat
// demotes it); reconnect and a second disconnect arrive while A follows; the usurper's
// record is deleted and A wins again before the first disconnect's grace period would have
// elapsed. Whatever the first outage armed must not touch the new term before the grace
// period of the latest disconnect is over.
func scnConnReelect(grace time.Duration, secondD bool) *Scenario {
	s := K1(&Scenario{Name: fmt.Sprintf("conn-reelect/grace%v/second-disconnect-%v", grace, secondD)})
	s.Insts = []InstSpec{{ID: "A", Monitored: true, Grace: grace}}
	s.Script = starts("A")
	t := 1*s.H + 47*ms + 11*us
	s.Script = append(s.Script,
		Item{At: t, Actor: "conn", Do: "disconnect", Inst: "A", Fixed: true},
		Item{At: t + 31*ms, Actor: "outside", Do: "put", Payload: `{"id":"X","token":"tok-x","priority":0}`, Fixed: true},
		Item{At: t + 183*ms, Actor: "conn", Do: "reconnect", Inst: "A", Fixed: true})
	last := t
	if secondD {
		s.Script = append(s.Script, Item{At: t + 231*ms, Actor: "conn", Do: "disconnect", Inst: "A", Fixed: true})
		last = t + 231*ms
	}
	s.Script = append(s.Script, Item{At: t + 263*ms, Actor: "outside", Do: "delete", Fixed: true})
	s.Horizon = last + effGrace(grace, s.H) + 3*s.H
	s.MaxSteps = 3000
	s.LatencyBound = s.H/2 - ms
	s.DelayMenu = []time.Duration{s.H/2 - 2*ms}
	s.Tags = map[string]string{"c11": "faultfree", "change": "usurper-then-release"}
	s.AllowErr = nil
	s.DevFrom = t - 5*ms
	return s
}

// scnConnSlowDemoteStop: the grace period expires with no reconnect; the application's
// OnDemote takes 150 ms and then calls Status(); a Stop arrives 60 ms into the callback.
func scnConnSlowDemoteStop(grace time.Duration, stop string) *Scenario {
	s := scnConn([]string{"disconnect"}, grace, "none", false, "none")
	s.Name += "/slow-ondemote-then-" + stop
	s.Insts[0].DemoteDur = 150 * ms
	t := 1*s.H + 47*ms + 11*us
	it := Item{At: t + effGrace(grace, s.H) + 60*ms, Actor: "life", Do: stop, Inst: "A", Fixed: true}
	if stop == "stopctx" {
		it.DeleteKey = true
	}
	s.Script = append(s.Script, it)
	s.Horizon += 6 * time.Second // Stop's own 5 s wait
	return s
}

func c11Plan(tier string) []PlanItem {
	var items []PlanItem
	items = append(items,
		PlanItem{scnConnSlowDemoteStop(2*200*ms+7*ms+13*us, "stop"), 1},
		PlanItem{scnConnSlowDemoteStop(2*200*ms+7*ms+13*us, "stopctx"), 1})
	items = append(items, PlanItem{scnConnFlap(2*200*ms + 7*ms + 13*us), 1})
	items = append(items,
		PlanItem{scnConnReelect(3*200*ms+ms+17*us, true), 1},
		PlanItem{scnConnReelect(3*200*ms+ms+17*us, false), 1},
		PlanItem{scnConnReelect(4*200*ms+3*ms+19*us, true), 1})
	H := 200 * ms
	// not multiples of H: a grace timer armed at a heartbeat instant must not expire
	// exactly at another heartbeat instant (two library goroutines runnable at one
	// virtual instant = uncontrolled order, DESIGN §2.5)
	g2, g3 := 2*H+7*ms+13*us, 3*H+ms+17*us
	graces := []time.Duration{g2, g3}
	maxLen := 3
	if tier == "thorough" {
		maxLen = 4
	}
	for _, seq := range c11Seqs(maxLen) {
		for _, g := range graces {
			for _, ch := range []string{"none", "usurper", "expire"} {
				d := 1
				if tier != "thorough" && len(seq) == 3 && ch != "none" {
					d = 0
				}
				if tier == "thorough" && len(seq) == 4 {
					d = 0
					if ch == "none" {
						d = 1
					}
				}
				items = append(items, PlanItem{scnConn(seq, g, ch, false, "none"), d})
			}
		}
		if len(seq) <= 2 {
			// default grace (5s), partitions and stops on the short sequences
			items = append(items, PlanItem{scnConn(seq, 0, "none", false, "none"), 0})
			for _, st := range []string{"stop", "stopctx"} {
				items = append(items, PlanItem{scnConn(seq, g2, "none", false, st), 1})
				items = append(items, PlanItem{scnConn(seq, g2, "usurper", false, st), 1})
			}
			items = append(items, PlanItem{scnConn(seq, g2, "none", true, "none"), 1})
			items = append(items, PlanItem{scnConn(seq, g3, "none", true, "stop"), 0})
		}
	}
	return items
}

func init() {
	oracles["C11"] = oracleC11
	props["C11"] = &propDef{
		Level:  "fault_enumeration",
		Rule:   "all sequences over {disconnect, reconnect, closed} of length <= L delivered serially (as nats.go's dispatcher does) through the handlers the monitor registers on an unconnected nats.Conn, x grace in {2H, 3H+1ms} (and the 5s default on short sequences) x ownership change during the outage {none, usurper record, expiry; usurper record later released so that the instance leads a second term inside the first outage's grace period} x (short sequences) partition of the store and Stop/StopWithContext; each notification and the change moved to every choice point (<= D deviations, incl. inside the 100ms settle sleep and the verification reads); non-trivial = a notification reached a leading instance",
		Assume: []string{"connection callbacks never overlap (nats.go dispatches them from one goroutine, in order); the harness reproduces that", "single monitored instance; the usurper is an outside writer"},
		Plan:   func(t string) []PlanItem { return append(c11Plan(t), finePlan("C11", t)...) },
	}
}

func oracleC11(r *Result) ([]Violation, bool) {
	var s vset
	nontrivial := false
	sp := r.Scn.inst("A")
	grace := effGrace(sp.Grace, r.Scn.H)
	faultfree := r.Scn.Tags["c11"] == "faultfree"
	// --- liveness / deadlock / crash
	for _, g := range r.Stuck {
		s.add(r.EndT, "goroutine-stuck/"+sigOfStack(g), "library goroutine never ends: %s", g)
	}
	for _, e := range r.Trace {
		if e.K == "q" {
			for _, sn := range e.Snap {
				if sn.Blocked {
					if !sn.Fine {
						s.add(e.T, "status-blocked", "%s: Status() never returns at %v: the election mutex is held for ever", sn.I, e.T)
					}
				}
			}
		}
	}
	if r.Spin != "" {
		s.add(r.EndT, "spin", "%s", r.Spin)
	}
	// --- grace timing
	latestD := time.Duration(-1)
	rAfter := false
	leads := false
	stopping := false
	changed := false
	type exp struct {
		at time.Duration
	}
	var pendingExpiry *exp
	demoteAt := map[time.Duration]bool{}
	onDemoteAt := map[time.Duration]bool{}
	check := func(now time.Duration) {
		if pendingExpiry != nil && now > pendingExpiry.at {
			at := pendingExpiry.at
			pendingExpiry = nil
			if !faultfree || stopping || changed {
				return
			}
			if !demoteAt[at] {
				s.add(at, "no-demotion-at-grace-expiry", "A was leading, disconnected since %v with no reconnect, and was not demoted when the grace period (%v) elapsed at %v", at-grace, grace, at)
			} else if !onDemoteAt[at] {
				s.add(at, "no-ondemote-at-grace-expiry", "A was demoted at grace expiry %v but OnDemote did not run at that instant", at)
			}
		}
	}
	for _, e := range r.Trace {
		check(e.T)
		switch e.K {
		case "notify":
			if leads {
				nontrivial = true
			}
			switch e.S {
			case "disconnect":
				latestD, rAfter = e.T, false
				if leads && e.T+grace < r.EndT {
					pendingExpiry = &exp{e.T + grace}
				} else {
					pendingExpiry = nil
				}
			case "reconnect":
				rAfter = true
				pendingExpiry = nil
			}
		case "api.call":
			if strings.HasPrefix(e.S, "stop") {
				stopping = true
				pendingExpiry = nil
			}
		case "outside.put", "outside.expire", "outside.delete":
			changed = true
		case "gauge":
			if e.I != "A" {
				continue
			}
			if leads && !e.B {
				demoteAt[e.T] = true
				if faultfree && !stopping && !changed && evKind(e.S2) == "time" {
					// only the grace timer demotes in a pure time step when the store is fault-free
					switch {
					case latestD < 0:
						s.add(e.T, "timer-demotion-without-disconnect", "A was demoted in a timer step at %v without any disconnect notification", e.T)
					case rAfter:
						s.add(e.T, "grace-demotion-after-reconnect", "A was demoted by the grace timer at %v although a reconnect notification arrived after the latest disconnect (%v)", e.T, latestD)
					case e.T < latestD+grace:
						s.add(e.T, "grace-demotion-too-early", "A was demoted by the grace timer at %v, only %v after the latest disconnect notification at %v (grace period %v)", e.T, e.T-latestD, latestD, grace)
					}
				}
				pendingExpiry = nil
			}
			if !leads && e.B {
				// a new term: its record is fresh, an ownership change during an earlier
				// term says nothing about it
				changed = false
			}
			leads = e.B
		case "demote":
			if e.I == "A" {
				onDemoteAt[e.T] = true
			}
		}
	}
	check(r.EndT + 1)
	// --- every reconnect is followed by a fresh read: when a reconnect notification is
	// the latest notification throughout its 100 ms settle delay and A leads (and is not
	// being stopped) throughout, the verification's first read is issued by the end of it
	{
		const settle = 100 * ms
		type note struct {
			t    time.Duration
			kind string
		}
		var notes []note
		var stopAt time.Duration = -1
		for _, e := range r.Trace {
			if e.K == "notify" {
				notes = append(notes, note{e.T, e.S})
			}
			if e.K == "api.call" && strings.HasPrefix(e.S, "stop") && stopAt < 0 {
				stopAt = e.T
			}
		}
		leadsThrough := func(from, to time.Duration) bool {
			ok, seen := true, false
			for _, e := range r.Trace {
				if e.K != "q" || e.T < from || e.T > to {
					continue
				}
				for _, sn := range e.Snap {
					if sn.I == "A" {
						seen = true
						if !sn.IsLeader || sn.Cut {
							ok = false
						}
					}
				}
			}
			return ok && seen
		}
		for i, n := range notes {
			if n.kind != "reconnect" || n.t+settle+ms > r.EndT {
				continue
			}
			latest := true
			for _, m := range notes[i+1:] {
				if m.t <= n.t+settle {
					latest = false
				}
			}
			if !latest || (stopAt >= 0 && stopAt <= n.t+settle+ms) || !leadsThrough(n.t, n.t+settle+ms) {
				continue
			}
			read := false
			for _, op := range r.Ops {
				if op.Inst == "A" && op.Label == "reconn" && op.Kind == "Get" && op.TIssue >= n.t && op.TIssue <= n.t+settle+ms {
					read = true
				}
			}
			if !read {
				s.add(n.t+settle, "no-fresh-read-after-reconnect", "A led through the reconnect notification at %v and its %v settle delay, no other notification followed in that time, but no verification read was issued by %v", n.t, settle, n.t+settle)
			}
		}
	}
	// --- reconnect verification: keeps leadership iff the fresh reads confirm
	for idx, e := range r.Trace {
		if e.K != "op.answer" || !strings.Contains(e.Op, ".reconn.Get#") {
			continue
		}
		var first *Op
		for _, op := range r.Ops {
			if op.ID == e.Op {
				first = op
			}
		}
		if first == nil || first.Fault == "closed" {
			continue
		}
		confirm := first.resErr == nil && first.Read != nil
		lastIdx := idx
		if confirm {
			// the validation read issued right after
			var val *Op
			for k := idx + 1; k < len(r.Trace) && r.Trace[k].T == e.T; k++ {
				if r.Trace[k].K == "op.issue" && strings.Contains(r.Trace[k].Op, ".validate.Get#") {
					for _, op := range r.Ops {
						if op.ID == r.Trace[k].Op {
							val = op
						}
					}
					break
				}
			}
			if val == nil || !val.Answered || val.Fault == "closed" {
				continue
			}
			for k := idx + 1; k < len(r.Trace); k++ {
				if r.Trace[k].K == "op.answer" && r.Trace[k].Op == val.ID {
					lastIdx = k
					break
				}
			}
			confirm = val.resErr == nil && val.Read != nil
			if confirm {
				p, ok := parsePayload(val.Read.Val)
				tok := ""
				for k := lastIdx; k >= 0; k-- {
					if r.Trace[k].K == "q" {
						for _, sn := range r.Trace[k].Snap {
							if sn.I == "A" {
								tok = sn.Token
							}
						}
						break
					}
				}
				confirm = ok && p.ID == "A" && p.Token == tok
			}
		}
		// state right before the verification result and at the next quiescent point
		ledBefore, stopped := false, false
		for k := lastIdx; k >= 0; k-- {
			if r.Trace[k].K == "q" {
				for _, sn := range r.Trace[k].Snap {
					if sn.I == "A" {
						ledBefore = sn.IsLeader
						stopped = sn.InStop || sn.StopDone
					}
				}
				break
			}
		}
		if !ledBefore || stopped {
			continue
		}
		for k := lastIdx + 1; k < len(r.Trace); k++ {
			q := r.Trace[k]
			if q.K == "api.call" && strings.HasPrefix(q.S, "stop") {
				break
			}
			if q.K != "q" {
				continue
			}
			for _, sn := range q.Snap {
				if sn.I != "A" || sn.Blocked {
					continue
				}
				if confirm && !sn.IsLeader && r.Trace[lastIdx].T == q.T {
					// demoted in the very step that delivered a confirming read
					cause := ""
					for j := lastIdx; j < k; j++ {
						if r.Trace[j].K == "gauge" && !r.Trace[j].B {
							cause = evKind(r.Trace[j].S2)
						}
					}
					if strings.Contains(cause, "validate") || strings.Contains(cause, "reconn") {
						s.add(q.T, "demoted-despite-confirming-read", "A: the reconnect verification read its own id and token at %v but the instance was demoted", q.T)
					}
				}
				if !confirm && sn.IsLeader {
					s.add(q.T, "leader-kept-after-failed-verification", "A: the reconnect verification did not confirm ownership (read error or foreign/absent record) at %v but the instance still reports leadership", q.T)
				}
				if !confirm && !sn.IsLeader && sn.NDem < sn.NProm {
					s.add(q.T, "no-ondemote-after-failed-verification", "A was demoted by the failed reconnect verification at %v without OnDemote", q.T)
				}
			}
			break
		}
	}
	return s.vs, nontrivial
}
