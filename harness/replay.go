package harness

import (
	"encoding/json"
	"fmt"
	"io"
	"os"
	"strings"
)

func LoadReplay(path string) (*ReplayFile, error) {
	b, err := os.ReadFile(path)
	if err != nil {
		return nil, err
	}
	var rf ReplayFile
	if err := json.Unmarshal(b, &rf); err != nil {
		return nil, err
	}
	return &rf, nil
}

func PrintTrace(w io.Writer, r *Result) {
	fmt.Fprintf(w, "scenario %s  choices=%d  end=%v stuck=%v spin=%q\n", r.Scn.Name, len(r.Chosen), r.EndT, r.Stuck, r.Spin)
	ci := 0
	for _, e := range r.Trace {
		switch e.K {
		case "q":
			var parts []string
			for _, s := range e.Snap {
				parts = append(parts, fmt.Sprintf("%s[L=%v st=%s lid=%s rev=%d p/d=%d/%d%s]", s.I, s.IsLeader, s.State, s.LeaderID, s.SRev, s.NProm, s.NDem, map[bool]string{true: " BLOCKED", false: ""}[s.Blocked]))
			}
			rec := "-"
			if e.Rec != nil {
				rec = fmt.Sprintf("rev%d id=%s by=%s", e.Rec.Rev, e.Rec.ID, e.Rec.By)
			}
			ch := ""
			if ci < len(r.Chosen) {
				ch = r.Chosen[ci]
				ci++
			}
			fmt.Fprintf(w, "%10v  ---- %s | rec: %s  ==> %s\n", e.T, strings.Join(parts, " "), rec, ch)
		default:
			extra := ""
			if len(e.Leaders) > 0 {
				extra = fmt.Sprintf(" leaders=%v", e.Leaders)
			}
			fmt.Fprintf(w, "%10v  %-14s %-3s %s %s %s b=%v%s\n", e.T, e.K, e.I, e.Op, e.S, e.S2, e.B, extra)
		}
	}
}
