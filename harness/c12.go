package harness

import (
	"fmt"
	"strings"
	"time"
)

// C12: every health-result sequence against a reference counter.

func init() {
	oracles["C12"] = oracleC12
	props["C12"] = &propDef{
		Level:  "model_checking",
		Rule:   "reference model = consecutive-unhealthy counter of the current term (reset by a healthy result and by a new term); every health-result sequence over {ok,bad,slow} of length <= L (and over {ok,bad,healthy-after-150ms} of length <= 4/5) x MaxConsecutiveFailures in {0 (=>3),1,2,3,4} is executed on the real election (one instance, virtual time, continued across terms until re-election) and compared tick by tick: demotion by the health mechanism exactly when the reference count reaches the threshold, OnDemote ran, each Check context expires within 100ms, re-election afterwards. states = distinct reference states (term, count, position, leading), transitions = health ticks executed on the implementation, traces_validated_against_impl = sequences executed",
		Assume: []string{"single instance, K1 timing (H=200ms, TTL=600ms); sequences up to length 3 also with H=500ms/TTL=1.5s and H=4s/TTL=12s", "a slow check returns false at its context deadline"},
		Plan:   c12Plan,
		After:  c12After,
	}
}

func c12Seqs(maxLen int) [][]string { return c12SeqsOver(maxLen, []string{"ok", "bad", "slow"}) }

func c12SeqsOver(maxLen int, alphabet []string) [][]string {
	var out [][]string
	var gen func(cur []string)
	gen = func(cur []string) {
		if len(cur) > 0 {
			out = append(out, append([]string{}, cur...))
		}
		if len(cur) == maxLen {
			return
		}
		for _, r := range alphabet {
			gen(append(cur, r))
		}
	}
	gen(nil)
	return out
}

func flenLate(tier string) int {
	if tier == "thorough" {
		return 5
	}
	return 4
}

func c12Len(tier string) int {
	if tier == "thorough" {
		return 7
	}
	return 6
}

func c12Scenario(seq []string, thr int) *Scenario {
	s := K1(&Scenario{Name: fmt.Sprintf("health/%s/thr%d", strings.Join(seq, ","), thr)})
	hs := append(append([]string{}, seq...), "ok")
	s.Insts = []InstSpec{{ID: "A", Health: hs, MaxFail: thr}}
	s.Script = starts("A")
	// long enough for every possible demotion to be followed by expiry and re-election
	s.Horizon = time.Duration(len(seq)+2)*s.H + 3*(s.TTL+900*ms)
	s.MaxSteps = 2000
	s.LatencyBound = s.H/2 - ms
	return s
}

func c12Plan(tier string) []PlanItem {
	var items []PlanItem
	for _, seq := range c12Seqs(c12Len(tier)) {
		for _, thr := range []int{0, 1, 2, 3, 4} {
			items = append(items, PlanItem{c12Scenario(seq, thr), 0})
		}
	}
	// a checker that ignores the deadline of its context and reports healthy after 150 ms:
	// still a healthy result
	for _, seq := range c12SeqsOver(flenLate(tier), []string{"bad", "late150", "ok"}) {
		has := false
		for _, x := range seq {
			if x == "late150" {
				has = true
			}
		}
		if !has {
			continue
		}
		for _, thr := range []int{1, 2, 3} {
			items = append(items, PlanItem{c12Scenario(seq, thr), 0})
		}
	}
	// the application replaces its OnDemote callback 50 ms after the first health tick of the
	// term (registration while leading): the demotion has to invoke the current callback
	for _, seq := range c12SeqsOver(3, []string{"bad", "ok"}) {
		for _, thr := range []int{1, 2, 3} {
			s := c12Scenario(seq, thr)
			s.Name += "/ondemote-replaced"
			s.Script = append(s.Script, Item{At: 1*ms + s.H + 50*ms + 3*us, Actor: "app", Do: "reregister", Inst: "A", Fixed: true})
			items = append(items, PlanItem{s, 0})
		}
	}
	// other heartbeat intervals (the 100 ms budget of a check does not depend on H): short
	// sequences with H = 500 ms and H = 4 s
	for _, kk := range []struct {
		n string
		k kfn
	}{{"K5", K5}, {"K3", K3}} {
		for _, seq := range c12Seqs(3) {
			for _, thr := range []int{1, 2, 3} {
				s := c12Scenario(seq, thr)
				kk.k(s)
				s.Name += "/" + kk.n
				s.Horizon = time.Duration(len(seq)+2)*s.H + 3*(s.TTL+900*ms)
				s.LatencyBound = s.H/2 - ms
				items = append(items, PlanItem{s, 0})
			}
		}
	}
	// the same sequences with one transient failure of a heartbeat refresh, injected at
	// every refresh in turn (d = 1): the health count must not depend on the refresh
	flen := 4
	if tier == "thorough" {
		flen = 5
	}
	for _, seq := range c12Seqs(flen) {
		for _, thr := range []int{1, 2, 3} {
			s := c12Scenario(seq, thr)
			s.Name += "/hb-error"
			s.AllowErr = []string{"timeout"}
			s.FaultLabels = []string{"hb"}
			s.NoTimeDev = true
			s.DevUntil = time.Duration(len(seq)+2) * s.H
			items = append(items, PlanItem{s, 1})
		}
	}
	// the same sequences with a restart (Stop, then Start 60 ms later) after the k-th
	// health tick: a term that ends by Stop and the term after it
	for _, seq := range c12Seqs(flen) {
		for _, thr := range []int{2, 3} {
			for k := 1; k <= len(seq); k++ {
				s := c12Scenario(seq, thr)
				s.Name += fmt.Sprintf("/restart-after-tick%d", k)
				at := 1*ms + time.Duration(k)*s.H + 120*ms + 7*us // after the k-th tick (a slow check ends 100 ms after its tick)
				s.Script = append(s.Script,
					Item{At: at, Actor: "lifeA", Do: "stop", Inst: "A", Fixed: true},
					Item{At: at + 60*ms, Actor: "lifeA", Do: "start", Inst: "A", Fixed: true})
				items = append(items, PlanItem{s, 0})
			}
		}
	}
	return items
}

func oracleC12(r *Result) ([]Violation, bool) {
	var s vset
	for _, e := range r.Trace {
		if e.K == "demote.stale" {
			s.add(e.T, "replaced-ondemote-invoked", "%s: a demotion at %v invoked an OnDemote callback that the application had replaced before", e.I, e.T)
		}
	}
	spec := r.Scn.inst("A")
	thr := spec.MaxFail
	if thr <= 0 {
		thr = 3
	}
	count := 0
	nontrivial := false
	lastHealthDemote := time.Duration(-1)
	type pend struct {
		expect bool
		t      time.Duration
		idx    int
	}
	var cur *pend
	demotedInStep := false
	ondemote := false
	flush := func() {
		if cur == nil {
			return
		}
		if cur.expect && !demotedInStep {
			s.add(cur.t, "no-demotion-at-threshold", "health tick %d at %v is the %d-th consecutive unhealthy result of the term (threshold %d) but the instance was not demoted", cur.idx, cur.t, thr, thr)
		}
		if !cur.expect && demotedInStep {
			s.add(cur.t, "demotion-below-threshold", "health tick %d at %v: demoted by the health mechanism with only %d consecutive unhealthy results in this term (threshold %d)", cur.idx, cur.t, count, thr)
		}
		if demotedInStep && !ondemote {
			s.add(cur.t, "health-demotion-without-ondemote", "health demotion at %v did not run OnDemote", cur.t)
		}
		if demotedInStep {
			lastHealthDemote = cur.t
			count = 0
		}
		cur = nil
	}
	leading := false
	armed := false // between the completion of a check and the next quiescent point
	for _, e := range r.Trace {
		switch e.K {
		case "health":
			flush()
			nontrivial = true
			if e.S == "ok" {
				count = 0
			} else {
				count++
			}
			if !e.B {
				s.add(e.T, "check-context-without-deadline", "health check %d got a context without deadline", e.N)
			} else if d, err := time.ParseDuration(e.S2); err == nil && d > 100*time.Millisecond {
				s.add(e.T, "check-context-deadline-too-far", "health check %d got a context expiring in %v", e.N, d)
			}
			cur = &pend{expect: count >= thr, t: e.T, idx: e.N}
			demotedInStep, ondemote = false, false
			armed = e.S != "slow" // a slow check completes at its context deadline (health.ret)
		case "health.ret":
			armed = true
			if !leading {
				cur = nil // demoted by another mechanism while the slow check was running
			}
		case "gauge":
			if cur != nil && armed && leading && !e.B {
				demotedInStep = true
			}
			leading = e.B
		case "demote":
			if cur != nil && armed && demotedInStep {
				ondemote = true
			}
		case "promote":
			flush()
			count = 0 // a new term restarts the count
			lastHealthDemote = -1
		case "q":
			if cur != nil && armed {
				flush()
				armed = false
			}
		}
	}
	flush()
	if lastHealthDemote >= 0 && lastHealthDemote+r.Scn.TTL+900*ms < r.Scn.Horizon {
		s.add(r.EndT, "not-reelected-after-health-demotion", "demoted by health at %v and not re-elected by %v although it is the only candidate", lastHealthDemote, r.EndT)
	}
	return s.vs, nontrivial
}

// c12After: enumerate the reference model's state space for the evidence.
func c12After(c *CheckCtx) {
	type st struct {
		term, count, pos int
	}
	states := map[st]bool{}
	ticks := 0
	for _, seq := range c12Seqs(c12Len(c.Tier)) {
		for _, thr := range []int{3, 1, 2, 3, 4} {
			term, count := 1, 0
			states[st{term, 0, 0}] = true
			for i, r := range seq {
				ticks++
				if r == "ok" {
					count = 0
				} else {
					count++
				}
				if count >= thr {
					term++
					count = 0
				}
				states[st{term, count, i + 1}] = true
			}
		}
	}
	c.extra["states"] = len(states)
	c.extra["reference_ticks"] = ticks
	c.extra["traces_validated_against_impl"] = c.execs - c.diverg
}
