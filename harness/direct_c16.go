package harness

import (
	"errors"
	"fmt"
	"github.com/nats-io/nats.go"
	"sort"
	"time"

	"github.com/ali-assar/NATS-Leader-Election/leader"
)

// C16: the full product of per-field boundary sets through NewElection, against the
// property's predicate written out as a Go function (the reference model).

type countingProvider struct{ calls int }

func (p *countingProvider) JetStream() (leader.JetStreamContext, error) {
	p.calls++
	return &countingJS{p}, nil
}

type countingJS struct{ p *countingProvider }

func (j *countingJS) KeyValue(bucket string) (leader.KeyValue, error) {
	j.p.calls++
	return &HKV{}, nil
}

const year = 365 * 24 * time.Hour

// c16Offending returns the set of fields the property's statement says are wrong.
func c16Offending(c leader.ElectionConfig) map[string]bool {
	bad := map[string]bool{}
	if c.Bucket == "" {
		bad["Bucket"] = true
	}
	if c.Group == "" {
		bad["Group"] = true
	}
	if c.InstanceID == "" {
		bad["InstanceID"] = true
	}
	if c.TTL <= 0 {
		bad["TTL"] = true
	}
	if c.HeartbeatInterval <= 0 {
		bad["HeartbeatInterval"] = true
	}
	if c.TTL > 0 && c.HeartbeatInterval > 0 && c.TTL < 3*c.HeartbeatInterval {
		bad["TTL"] = true
		bad["HeartbeatInterval"] = true
	}
	if c.ValidationInterval != 0 && (c.ValidationInterval < c.HeartbeatInterval || c.ValidationInterval < 0) {
		bad["ValidationInterval"] = true
		if c.ValidationInterval > 0 {
			bad["HeartbeatInterval"] = true // relational constraint: either side may be named
		}
	}
	if c.DisconnectGracePeriod != 0 && (c.DisconnectGracePeriod < 2*c.HeartbeatInterval || c.DisconnectGracePeriod < 0) {
		bad["DisconnectGracePeriod"] = true
		if c.DisconnectGracePeriod > 0 {
			bad["HeartbeatInterval"] = true
		}
	}
	if c.MaxConsecutiveFailures < 0 {
		bad["MaxConsecutiveFailures"] = true
	}
	if c.AllowPriorityTakeover && c.Priority <= 0 {
		bad["Priority"] = true
		bad["AllowPriorityTakeover"] = true
	}
	return bad
}

func c16Direct(c *CheckCtx) {
	hs := []time.Duration{-1, 0, 1, time.Millisecond, 200 * time.Millisecond, year / 3}
	strs := []string{"", "x"}
	ints := []int{-1, 0, 1, 2}
	n, rejected, accepted := 0, 0, 0
	var samples []any
	for _, h := range hs {
		ttls := dedupD([]time.Duration{-1, 0, 1, 3*h - 1, 3 * h, 3*h + 1, year})
		vis := dedupD([]time.Duration{-1, 0, 1, h - 1, h, h + 1, year})
		grs := dedupD([]time.Duration{-1, 0, 1, 2*h - 1, 2 * h, 2*h + 1, year})
		for _, ttl := range ttls {
			for _, vi := range vis {
				for _, gr := range grs {
					for _, mf := range ints {
						for _, pr := range ints {
							for _, tk := range []bool{false, true} {
								for _, b := range strs {
									for _, g := range strs {
										for _, id := range strs {
											cfg := leader.ElectionConfig{Bucket: b, Group: g, InstanceID: id, TTL: ttl, HeartbeatInterval: h,
												ValidationInterval: vi, DisconnectGracePeriod: gr, MaxConsecutiveFailures: mf, Priority: pr, AllowPriorityTakeover: tk}
											n++
											prov := &countingProvider{}
											el, err := leader.NewElection(prov, cfg)
											bad := c16Offending(cfg)
											desc := fmt.Sprintf("Bucket=%q Group=%q InstanceID=%q TTL=%v H=%v Validation=%v Grace=%v MaxFail=%d Priority=%d Takeover=%v", b, g, id, ttl, h, vi, gr, mf, pr, tk)
											if len(bad) == 0 {
												accepted++
												if err != nil {
													c.DirectViolation("valid-config-rejected", fmt.Sprintf("NewElection rejected a configuration the statement accepts: %s: %v", desc, err), desc)
												} else if el == nil {
													c.DirectViolation("nil-election-without-error", desc, desc)
												}
												if len(samples) < 2 && n%9973 == 0 {
													samples = append(samples, map[string]any{"config": desc, "expected": "accepted", "got": errStr(err)})
												}
												continue
											}
											rejected++
											if err == nil {
												f := ""
												for k := range bad {
													if f == "" || k < f {
														f = k
													}
												}
												c.DirectViolation("invalid-config-accepted/"+f, fmt.Sprintf("NewElection accepted a configuration the statement rejects (offending: %v): %s", keys(bad), desc), desc)
												continue
											}
											var ve *leader.ValidationError
											if !errors.As(err, &ve) {
												c.DirectViolation("error-not-validation-error", fmt.Sprintf("%s: error %v is not a *ValidationError", desc, err), desc)
											} else if !bad[ve.Field] {
												c.DirectViolation("error-names-wrong-field/"+ve.Field, fmt.Sprintf("%s: error names field %q, offending fields are %v", desc, ve.Field, keys(bad)), desc)
											}
											if prov.calls != 0 {
												c.DirectViolation("store-contacted-before-validation", fmt.Sprintf("%s: provider was called %d times although the configuration is invalid", desc, prov.calls), desc)
											}
											// the second constructor, over a connection that was never dialled: an
											// invalid configuration is refused by the same validation before the
											// connection is looked at
											if err2, pan := c16WithConn(cfg); pan != "" {
												c.DirectViolation("withconn/invalid-config-reached-the-connection", fmt.Sprintf("NewElectionWithConn %s: panicked on the undialled connection instead of rejecting the configuration: %s", desc, pan), desc)
											} else if err2 == nil {
												c.DirectViolation("withconn/invalid-config-accepted", fmt.Sprintf("NewElectionWithConn accepted a configuration the statement rejects (offending: %v): %s", keys(bad), desc), desc)
											} else if ve2 := (*leader.ValidationError)(nil); !errors.As(err2, &ve2) {
												c.DirectViolation("withconn/error-not-validation-error", fmt.Sprintf("NewElectionWithConn %s: error %v is not a *ValidationError", desc, err2), desc)
											} else if !bad[ve2.Field] {
												c.DirectViolation("withconn/error-names-wrong-field/"+ve2.Field, fmt.Sprintf("NewElectionWithConn %s: error names field %q, offending fields are %v", desc, ve2.Field, keys(bad)), desc)
											}
											if len(samples) < 4 && n%7919 == 0 {
												samples = append(samples, map[string]any{"config": desc, "expected": "rejected " + fmt.Sprint(keys(bad)), "got": errStr(err)})
											}
										}
									}
								}
							}
						}
					}
				}
			}
		}
	}
	c.extra["evaluations"] = n
	c.extra["distinct_nontrivial"] = rejected
	c.extra["accepted_by_reference"] = accepted
	c.extra["samples"] = samples
	c.extra["exhaustive"] = true
}

func keys(m map[string]bool) []string {
	var ks []string
	for k := range m {
		ks = append(ks, k)
	}
	sortStrings(ks)
	return ks
}

func init() {
	props["C16"] = &propDef{
		Level:  "exploration",
		Rule:   "full cartesian product of per-field boundary sets (H in {-1ns,0,1ns,1ms,200ms,1y/3}; TTL, ValidationInterval, DisconnectGracePeriod each in {-1ns,0,1ns,threshold-1ns,threshold,threshold+1ns,1y}; MaxConsecutiveFailures, Priority in {-1,0,1,2}; takeover on/off; each string empty/non-empty) through NewElection with a call-counting provider, compared with the statement's predicate; every configuration the predicate rejects also through NewElectionWithConn over a connection that was never dialled; distinct_nontrivial = distinct configurations the reference predicate rejects (each is distinct by construction)",
		Assume: []string{"the lattice covers every comparison in validateConfig at, below and above its threshold; durations beyond one year (3H overflow) are not enumerated"},
		Direct: c16Direct,
	}
}

func dedupD(in []time.Duration) []time.Duration {
	seen := map[time.Duration]bool{}
	var out []time.Duration
	for _, d := range in {
		if !seen[d] {
			seen[d] = true
			out = append(out, d)
		}
	}
	return out
}

func sortStrings(s []string) { sort.Strings(s) }

// c16WithConn runs NewElectionWithConn over a zero nats.Conn (never dialled).
func c16WithConn(cfg leader.ElectionConfig) (err error, panicked string) {
	defer func() {
		if r := recover(); r != nil {
			panicked = fmt.Sprint(r)
		}
	}()
	_, err = leader.NewElectionWithConn(&nats.Conn{}, cfg)
	return err, ""
}
