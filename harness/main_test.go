package harness

import (
	"flag"
	"fmt"
	"os"
	"strings"
	"testing"
	"time"
)

var (
	fWorker = flag.Bool("mcx.worker", false, "run as exploration worker")
	fCur    = flag.String("mcx.cur", "", "worker: file that receives the prefix being executed")
	fProp   = flag.String("mcx.prop", "", "property to check")
	fTier   = flag.String("mcx.tier", "quick", "quick|thorough")
	fSeed   = flag.Int("mcx.seed", 0, "seed (rotates subtree order only)")
	fOut    = flag.String("mcx.out", "/verif", "verif root (evidence/, replays/, known_findings.json)")
	fDir    = flag.String("mcx.dir", "/verif/.build", "scratch directory")
	fBudget = flag.Duration("mcx.budget", 0, "wall-clock budget for the exploration")
	fJobs   = flag.Int("mcx.workers", 0, "worker processes (default: all cores)")
	fReplay = flag.String("mcx.replay", "", "replay file to execute")
)

func TestWorker(t *testing.T) {
	if !*fWorker {
		t.Skip("worker mode only")
	}
	WorkerMain(t, *fCur)
}

func TestCheck(t *testing.T) {
	if *fProp == "" {
		t.Skip("no property")
	}
	c17T = t
	exe, _ := os.Executable()
	c := &CheckCtx{Prop: *fProp, Tier: *fTier, Seed: *fSeed, Exe: exe, Dir: *fDir, OutDir: *fOut, Budget: *fBudget, Workers: *fJobs}
	rc := RunCheck(c)
	os.Stdout.Sync()
	os.Exit(rc)
}

func TestSmoke(t *testing.T) {
	if *fWorker || *fProp != "" {
		t.Skip()
	}
	s := K1(&Scenario{Name: "smoke", Horizon: 1500 * ms})
	s.Insts = []InstSpec{{ID: "A"}, {ID: "B"}}
	s.Script = []Item{{At: 1 * ms, Actor: "a", Do: "start", Inst: "A"}, {At: 3 * ms, Actor: "b", Do: "start", Inst: "B"}}
	t0 := time.Now()
	var r *Result
	for i := 0; i < 200; i++ {
		r = RunOnce(t, s, nil, false)
	}
	fmt.Println("200 runs", time.Since(t0), "steps", r.Steps, "stuck", r.Stuck, "div", r.Diverged, "hash", r.Hash)
}

func TestReplay(t *testing.T) {
	if *fReplay == "" {
		t.Skip("no replay file")
	}
	rf, err := LoadReplay(*fReplay)
	if err != nil {
		t.Fatal(err)
	}
	if rf.Scenario == nil {
		fmt.Printf("replay %s: direct (non-scheduler) witness for %s\n  signature: %s\n  %s\n  extra: %v\n", *fReplay, rf.Property, rf.Signature, rf.Message, rf.Extra)
		return
	}
	r := RunOnce(t, rf.Scenario, rf.Choices, true)
	PrintTrace(os.Stdout, r)
	if r.Diverged != "" {
		fmt.Println("DIVERGED:", r.Diverged)
	}
	vs, _ := Evaluate(rf.Property, r)
	hit := false
	for _, v := range vs {
		fmt.Printf("oracle %s: [%s] %s\n", rf.Property, v.Sig, v.Msg)
		if v.Sig == rf.Signature {
			hit = true
		}
	}
	if hit {
		fmt.Printf("REPRODUCED property=%s signature=%s\n", rf.Property, rf.Signature)
		t.Fail()
	} else {
		fmt.Printf("not reproduced on this tree: property=%s signature=%s\n", rf.Property, rf.Signature)
	}
}

var (
	fOne    = flag.String("mcx.one", "", "debug: run one scenario of -mcx.prop by name and print its trace")
	fPrefix = flag.String("mcx.prefix", "", "debug: comma separated choice prefix for -mcx.one")
	fGrep   = flag.String("mcx.alts", "", "debug: print alternatives at each choice point")
)

func TestOne(t *testing.T) {
	if *fOne == "" {
		t.Skip()
	}
	pd := props[*fProp]
	for _, it := range pd.Plan(*fTier) {
		if it.Scn.Name != *fOne {
			continue
		}
		var prefix []string
		if *fPrefix != "" {
			prefix = strings.Split(*fPrefix, ",")
		}
		r := RunOnce(t, it.Scn, prefix, true)
		PrintTrace(os.Stdout, r)
		if *fGrep != "" {
			for i, a := range r.Alts {
				fmt.Printf("point %d: %v\n", i, a)
			}
		}
		vs, nt := Evaluate(*fProp, r)
		fmt.Println("nontrivial:", nt, "diverged:", r.Diverged)
		for _, v := range vs {
			fmt.Printf("VIOL [%s] %s\n", v.Sig, v.Msg)
		}
		return
	}
	fmt.Println("scenario not found")
}

var (
	fRaceWorker = flag.Bool("mcx.raceworker", false, "run as race-pass worker")
	fRaceLog    = flag.String("mcx.racelog", "", "race worker: file that receives the process's stderr")
)

func TestRaceWorker(t *testing.T) {
	if !*fRaceWorker {
		t.Skip("race worker mode only")
	}
	RaceWorkerMain(t, *fRaceLog)
}
