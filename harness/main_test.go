package harness

import (
	"fmt"
	"testing"
)

func TestSmoke(t *testing.T) {
	s := K1(&Scenario{Name: "smoke", Horizon: 1500 * ms})
	s.Insts = []InstSpec{{ID: "A"}, {ID: "B"}}
	s.Script = []Item{{At: 1 * ms, Actor: "a", Do: "start", Inst: "A"}, {At: 3 * ms, Actor: "b", Do: "start", Inst: "B"}}
	r := RunOnce(t, s, nil, true)
	for _, c := range r.Chosen {
		fmt.Println(c)
	}
	fmt.Println("steps", r.Steps, "stuck", r.Stuck, "div", r.Diverged, "hash", r.Hash)
	for _, e := range r.Trace {
		if e.K != "q" {
			fmt.Printf("%v %s %s %s %s %s\n", e.T, e.K, e.I, e.Op, e.S, e.S2)
		}
	}
}
