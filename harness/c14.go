package harness

import (
	"bytes"
	"fmt"
	"os"
	"runtime"
	"strings"
	"sync"
	"time"

	"github.com/ali-assar/NATS-Leader-Election/leader"
	"github.com/nats-io/nats.go"
)

// C14: the library's real NATS adapter, on an embedded nats-server, in lock-step with
// the reference store over all operation sequences up to a depth (DESIGN §5 C14).

type c14sym struct {
	name string
	kind string // create upd-latest upd-stale upd-zero upd-next get delete wait
	val  []byte
}

var c14big = bytes.Repeat([]byte("0123456789abcdef"), 256) // 4 KiB

var c14Alphabet = []c14sym{
	{"Create(a)", "create", []byte("a")},
	{"Create(empty)", "create", []byte{}},
	{"Create(4KiB)", "create", c14big},
	{"Update(b,latest)", "upd-latest", []byte("b")},
	{"Update(empty,latest)", "upd-latest", []byte{}},
	{"Update(4KiB,latest)", "upd-latest", c14big},
	{"Update(c,stale)", "upd-stale", []byte("c")},
	{"Update(d,0)", "upd-zero", []byte("d")},
	{"Update(e,latest+1)", "upd-next", []byte("e")},
	{"Get", "get", nil},
	{"Delete", "delete", nil},
}

var c14Wait = c14sym{"WaitExpiry", "wait", nil}

type c14ctx struct {
	c              *CheckCtx
	mu             sync.Mutex
	seqs           int
	ops            int
	states         map[string]bool
	samples        []any
	watchSeqs      int
	events         int
	expirySlow     int
	watchFails     int
	watchersOpened int
}

func c14Seqs(depth int) [][]c14sym {
	var out [][]c14sym
	var gen func(cur []c14sym)
	gen = func(cur []c14sym) {
		if len(cur) > 0 {
			out = append(out, append([]c14sym{}, cur...))
		}
		if len(cur) == depth {
			return
		}
		for _, s := range c14Alphabet {
			gen(append(cur, s))
		}
	}
	gen(nil)
	return out
}

// expiry sequences: exactly one WaitExpiry at any position, up to depth.
func c14ExpirySeqs(depth int) [][]c14sym {
	var out [][]c14sym
	for _, base := range append([][]c14sym{nil}, c14Seqs(depth-1)...) {
		for pos := 0; pos <= len(base); pos++ {
			s := append(append(append([]c14sym{}, base[:pos]...), c14Wait), base[pos:]...)
			out = append(out, s)
		}
	}
	return out
}

func seqName(s []c14sym) string {
	var p []string
	for _, x := range s {
		p = append(p, x.name)
	}
	return strings.Join(p, "; ")
}

type c14worker struct {
	x     *c14ctx
	raw   nats.KeyValue
	kv    leader.KeyValue
	model *Store
	now   time.Duration
	ttl   time.Duration
	n     int
	id    int
}

type wexp struct {
	isNil bool
	rev   uint64
	val   []byte
}

type liveWatch struct {
	w      leader.Watcher
	style  int // 0: Updates() once, 1: Updates() before every receive
	ch     <-chan leader.Entry
	expect []wexp
	got    []wexp
	opened int
}

func (lw *liveWatch) recv(timeout time.Duration) (wexp, bool) {
	ch := lw.ch
	if lw.style == 1 {
		ch = lw.w.Updates()
	}
	var tmo <-chan time.Time
	if timeout > 0 {
		tmo = time.After(timeout)
	} else {
		c := make(chan time.Time)
		close(c)
		// give a forwarding goroutine the chance to hand over a buffered entry
		runtime.Gosched()
		select {
		case e, ok := <-ch:
			if !ok {
				return wexp{}, false
			}
			if e == nil {
				return wexp{isNil: true}, true
			}
			return wexp{rev: e.Revision(), val: append([]byte(nil), e.Value()...)}, true
		default:
			return wexp{}, false
		}
	}
	select {
	case e, ok := <-ch:
		if !ok {
			return wexp{}, false
		}
		if e == nil {
			return wexp{isNil: true}, true
		}
		return wexp{rev: e.Revision(), val: append([]byte(nil), e.Value()...)}, true
	case <-tmo:
		return wexp{}, false
	}
}

func fmtW(w wexp) string {
	if w.isNil {
		return "nil"
	}
	v := string(w.val)
	if len(v) > 8 {
		v = v[:8] + "..."
	}
	return fmt.Sprintf("r%d:%q", w.rev, v)
}

// run executes one sequence in lock-step; watchers (if withWatch) are opened before
// every position.
func (wk *c14worker) run(seq []c14sym, withWatch bool) {
	x := wk.x
	wk.n++
	key := fmt.Sprintf("w%dk%d", wk.id, wk.n)
	name := seqName(seq)
	var watches []*liveWatch
	var lazy []*liveWatch // consumers that fall behind: they never read and just stop
	fail := func(sig, format string, a ...any) {
		msg := fmt.Sprintf("sequence [%s] on a fresh key: ", name) + fmt.Sprintf(format, a...)
		x.c.DirectViolation(sig, msg, map[string]any{"sequence": name})
	}
	open := func(pos int) {
		nstyles := 2
		if pos == 0 {
			nstyles = 3 // plus one lazy consumer per sequence: obtains the channel, never reads, stops
		}
		for style := 0; style < nstyles; style++ {
			w, err := wk.kv.Watch(key)
			if err != nil {
				fail("watch-open-failed", "Watch failed: %v", err)
				return
			}
			lw := &liveWatch{w: w, style: style, opened: pos}
			if style == 0 || style == 2 {
				lw.ch = w.Updates()
			}
			if style == 2 {
				lazy = append(lazy, lw)
				continue
			}
			if m := wk.model.latest(key, wk.now); m != nil {
				lw.expect = append(lw.expect, expOf(m))
			}
			lw.expect = append(lw.expect, wexp{isNil: true})
			watches = append(watches, lw)
		}
	}
	note := func(m *Msg) {
		for _, lw := range watches {
			lw.expect = append(lw.expect, expOf(m))
		}
	}
	var lastWriteReal time.Time
	for pos, sy := range seq {
		// expiry buckets: the model's clock only moves at WaitExpiry; if this process was
		// descheduled for a sizeable part of MaxAge since the key's last write, the real
		// record may have expired on its own -> inconclusive, never an alarm
		if wk.ttl > 0 && sy.kind != "wait" && !lastWriteReal.IsZero() && time.Since(lastWriteReal) > wk.ttl/3 {
			x.mu.Lock()
			x.expirySlow++
			x.mu.Unlock()
			return
		}
		if withWatch {
			open(pos)
		}
		cur := wk.model.latest(key, wk.now)
		var latest uint64
		if cur != nil {
			latest = cur.Rev
		}
		x.mu.Lock()
		x.ops++
		st := "none"
		if cur != nil {
			st = fmt.Sprintf("del=%v,len=%d", cur.Del, len(cur.Val))
		}
		x.states[fmt.Sprintf("%s|pos%d", st, pos)] = true
		x.mu.Unlock()
		step := fmt.Sprintf("step %d %s", pos+1, sy.name)
		if sy.kind != "get" && sy.kind != "wait" && lastWriteReal.IsZero() {
			lastWriteReal = time.Now() // the oldest write that may still be unexpired
		}
		switch sy.kind {
		case "create":
			rev, err := wk.kv.Create(key, sy.val)
			m, _, merr := wk.model.Create(key, sy.val, wk.now, "x", "")
			wk.cmpWrite(fail, step, "Create", rev, err, m, merr)
			if merr == nil {
				note(m)
			}
		case "upd-latest", "upd-stale", "upd-zero", "upd-next":
			var exp uint64
			switch sy.kind {
			case "upd-latest":
				exp = latest
			case "upd-stale":
				if latest > 1 {
					exp = latest - 1
				} else {
					exp = latest + 3
				}
			case "upd-zero":
				exp = 0
			case "upd-next":
				exp = latest + 1
			}
			rev, err := wk.kv.Update(key, sy.val, exp)
			m, _, merr := wk.model.Update(key, sy.val, exp, wk.now, "x", "")
			wk.cmpWrite(fail, fmt.Sprintf("%s (expected revision %d, latest %d)", step, exp, latest), "Update", rev, err, m, merr)
			if merr == nil {
				note(m)
			}
		case "get":
			e, err := wk.kv.Get(key)
			m, merr := wk.model.Get(key, wk.now)
			switch {
			case (err == nil) != (merr == nil):
				fail("get-outcome-differs", "%s: adapter err=%v, model err=%v", step, err, merr)
			case err != nil:
				if err.Error() != merr.Error() {
					fail("get-error-text-differs", "%s: adapter error %q, model error %q", step, err.Error(), merr.Error())
				}
			default:
				if e == nil {
					fail("get-nil-entry", "%s: adapter returned nil entry and nil error", step)
				} else if e.Revision() != m.Rev || !bytes.Equal(e.Value(), m.Val) || e.Key() != key {
					fail("get-value-differs", "%s: adapter (rev %d, %d bytes), model (rev %d, %d bytes)", step, e.Revision(), len(e.Value()), m.Rev, len(m.Val))
				}
			}
		case "delete":
			err := wk.kv.Delete(key)
			m, _ := wk.model.Delete(key, wk.now, "x", "")
			if err != nil {
				fail("delete-failed", "%s: adapter error %v, model: blind delete always succeeds", step, err)
			}
			note(m)
		case "wait":
			time.Sleep(wk.ttl + 120*time.Millisecond)
			wk.now += wk.ttl
			lastWriteReal = time.Time{}
			// make sure the server has really expired the message before going on
			if cur != nil {
				deadline := time.Now().Add(3 * time.Second)
				for {
					if _, err := wk.raw.History(key); err != nil {
						break
					}
					if time.Now().After(deadline) {
						x.mu.Lock()
						x.expirySlow++
						x.mu.Unlock()
						return // inconclusive: never an alarm
					}
					time.Sleep(20 * time.Millisecond)
				}
			}
		}
	}
	if withWatch {
		for _, lw := range watches {
			for len(lw.got) < len(lw.expect) {
				e, ok := lw.recv(400 * time.Millisecond)
				if !ok {
					break
				}
				lw.got = append(lw.got, e)
			}
		}
		// nothing more may arrive: one shared grace period, then a non-blocking look
		time.Sleep(30 * time.Millisecond)
		for _, lw := range watches {
			if e, ok := lw.recv(0); ok {
				lw.got = append(lw.got, e)
			}
			styleName := []string{"Updates() called once", "Updates() called before every receive (as watchLoop does)"}[lw.style]
			if !sameW(lw.got, lw.expect) {
				x.mu.Lock()
				x.watchFails++
				x.mu.Unlock()
				sig := "watch-events-differ"
				if lw.style == 1 {
					sig = "watch-events-differ/updates-per-receive"
				}
				fail(sig, "watcher opened before step %d, consumer with %s: received %s, reference model %s", lw.opened+1, styleName, fmtWs(lw.got), fmtWs(lw.expect))
			}
			x.mu.Lock()
			x.events += len(lw.got)
			x.mu.Unlock()
		}
		for _, lw := range watches {
			lw.w.Stop()
		}
		for _, lw := range lazy {
			lw.w.Stop()
		}
		x.mu.Lock()
		x.watchSeqs++
		x.watchersOpened += len(watches) + len(lazy)
		x.mu.Unlock()
	}
	x.mu.Lock()
	x.seqs++
	if len(x.samples) < 3 && (x.seqs%4001 == 7 || (withWatch && x.watchSeqs == 50)) {
		x.samples = append(x.samples, map[string]any{"sequence": name, "with_watchers": withWatch})
	}
	x.mu.Unlock()
}

func libGoroutineCountRaw(frag string) int {
	if stackBuf == nil {
		stackBuf = make([]byte, 1<<22)
	}
	n := runtime.Stack(stackBuf, true)
	c := 0
	for _, g := range strings.Split(string(stackBuf[:n]), "\n\n") {
		if strings.Contains(g, frag) && strings.Contains(g, leaderPkg) {
			c++
		}
	}
	return c
}

func expOf(m *Msg) wexp {
	if m.Del {
		return wexp{rev: m.Rev}
	}
	return wexp{rev: m.Rev, val: m.Val}
}

func sameW(a, b []wexp) bool {
	if len(a) != len(b) {
		return false
	}
	for i := range a {
		if a[i].isNil != b[i].isNil || a[i].rev != b[i].rev || !bytes.Equal(a[i].val, b[i].val) {
			return false
		}
	}
	return true
}

func fmtWs(ws []wexp) string {
	var p []string
	for _, w := range ws {
		p = append(p, fmtW(w))
	}
	return "[" + strings.Join(p, " ") + "]"
}

func (wk *c14worker) cmpWrite(fail func(string, string, ...any), step, op string, rev uint64, err error, m *Msg, merr error) {
	switch {
	case (err == nil) != (merr == nil):
		fail(strings.ToLower(op)+"-outcome-differs", "%s: adapter (rev %d, err %v), model (err %v)", step, rev, err, merr)
	case err != nil:
		if err.Error() != merr.Error() {
			fail(strings.ToLower(op)+"-error-text-differs", "%s: adapter error %q, model error %q", step, err.Error(), merr.Error())
		}
	default:
		if rev != m.Rev {
			fail(strings.ToLower(op)+"-revision-differs", "%s: adapter revision %d, model revision %d", step, rev, m.Rev)
		}
	}
}

func c14Direct(c *CheckCtx) {
	depth, wdepth, edepth := 4, 3, 3
	if c.Tier == "thorough" {
		depth, wdepth, edepth = 5, 4, 4
	}
	env, err := startLive(c.Dir)
	if err != nil {
		c.notes = append(c.notes, "cannot start the embedded nats-server: "+err.Error())
		c.capped = true
		return
	}
	defer env.stop()
	x := &c14ctx{c: c, states: map[string]bool{}}
	nw := c.Workers
	if nw == 0 {
		nw = runtime.NumCPU()
	}
	mkWorker := func(id int, ttl time.Duration) (*c14worker, error) {
		nc, err := env.connect()
		if err != nil {
			return nil, err
		}
		raw, kv, err := env.bucket(nc, fmt.Sprintf("c14b%d", id), ttl)
		if err != nil {
			return nil, err
		}
		return &c14worker{x: x, raw: raw, kv: kv, model: NewStore(ttl), ttl: ttl, id: id}, nil
	}
	dbg := func(f string, a ...any) {
		if os.Getenv("MCX_DEBUG") != "" {
			fmt.Fprintf(os.Stderr, "c14 [%v] "+f+"\n", append([]any{time.Since(c.start).Round(time.Millisecond)}, a...)...)
		}
	}
	// phase 1: all sequences up to depth, in parallel (one bucket per worker)
	seqs := c14Seqs(depth)
	dbg("phase 1: %d sequences", len(seqs))
	ch := make(chan []c14sym, 1024)
	var wg sync.WaitGroup
	for i := 0; i < nw; i++ {
		wk, err := mkWorker(i, 0)
		if err != nil {
			c.notes = append(c.notes, "worker setup: "+err.Error())
			c.capped = true
			continue
		}
		wg.Add(1)
		go func() {
			defer wg.Done()
			for s := range ch {
				wk.run(s, false)
			}
		}()
	}
	for _, s := range seqs {
		ch <- s
	}
	close(ch)
	wg.Wait()
	// phase 2: expiry sequences (bucket MaxAge 150ms), in parallel
	eseqs := c14ExpirySeqs(edepth)
	dbg("phase 2: %d expiry sequences; phase 1 did %d ops", len(eseqs), x.ops)
	ch2 := make(chan []c14sym, 1024)
	for i := 0; i < nw; i++ {
		wk, err := mkWorker(100+i, 150*time.Millisecond)
		if err != nil {
			c.notes = append(c.notes, "worker setup: "+err.Error())
			c.capped = true
			continue
		}
		wg.Add(1)
		go func() {
			defer wg.Done()
			for s := range ch2 {
				wk.run(s, false)
			}
		}()
	}
	for _, s := range eseqs {
		ch2 <- s
	}
	close(ch2)
	wg.Wait()
	// phase 3: watchers at every prefix position, sequentially (goroutine census)
	dbg("phase 3: watchers; inconclusive expiry %d", x.expirySlow)
	ch3 := make(chan []c14sym, 1024)
	for i := 0; i < nw; i++ {
		wk, err := mkWorker(200+i, 0)
		if err != nil {
			c.notes = append(c.notes, "worker setup: "+err.Error())
			c.capped = true
			continue
		}
		wg.Add(1)
		go func() {
			defer wg.Done()
			for s := range ch3 {
				if x.watchFails > 40 {
					continue
				}
				wk.run(s, true)
			}
		}()
	}
	for _, s := range c14Seqs(wdepth) {
		ch3 <- s
	}
	close(ch3)
	wg.Wait()
	if x.watchFails > 40 {
		c.notes = append(c.notes, fmt.Sprintf("watcher phase cut short: %d watchers disagreed with the model", x.watchFails))
		c.capped = true
	}
	// every watcher has been stopped: the adapter's forwarding goroutines must be gone
	left := 0
	for i := 0; i < 80; i++ {
		left = libGoroutineCountRaw("natsWatcherAdapter")
		if left == 0 {
			break
		}
		time.Sleep(25 * time.Millisecond)
	}
	if left > 0 {
		c.DirectViolation("watcher-goroutines-accumulate", fmt.Sprintf("%d goroutines of the watcher adapter are still alive two seconds after every one of the %d watchers opened in this run was stopped", left, x.watchersOpened), map[string]any{"left": left, "watchers": x.watchersOpened})
	}
	c.extra["watchers_opened"] = x.watchersOpened
	c.extra["adapter_goroutines_left"] = left
	dbg("done")
	c.extra["states"] = len(x.states)
	c.extra["transitions"] = x.ops
	c.extra["traces_validated_against_impl"] = x.seqs
	c.extra["sequences_with_watchers"] = x.watchSeqs
	c.extra["watch_events_compared"] = x.events
	c.extra["expiry_sequences"] = len(eseqs)
	c.extra["expiry_inconclusive"] = x.expirySlow
	c.extra["samples"] = x.samples
	c.extra["depth"] = depth
	c.extra["exhaustive"] = !c.capped
}

func init() {
	props["C14"] = &propDef{
		Level:  "model_checking",
		Rule:   "all operation sequences up to depth D over {Create(a|empty|4KiB), Update(v, latest) for three values, Update(stale), Update(0), Update(latest+1), Get, Delete} executed through the library's real adapter on a fresh key of a memory bucket of an embedded nats-server and, in lock-step, on the reference store: identical outcome, revision, value and error text at every step; expiry sequences (one WaitExpiry at every position, bucket MaxAge 150ms) up to depth E; watchers opened before every position of every sequence up to depth W with two consumer styles (Updates() once / before every receive): received events equal the model's list, adapter goroutines gone after Stop. states = distinct (model state of the key, position), transitions = operations executed on both sides, traces_validated_against_impl = sequences replayed on the real adapter (all)",
		Assume: []string{"single writer per bucket (the atomicity of JetStream's per-subject compare-and-set under concurrency is an assumption)", "an expiry that the server has not performed 3s after MaxAge+120ms makes the sequence inconclusive (counted), never an alarm"},
		Direct: c14Direct,
	}
}
