package harness

import (
	"crypto/sha1"
	"encoding/json"
	"fmt"
	"os"
	"path/filepath"
	"runtime"
	"sort"
	"strings"
	"sync"
	"time"
)

// PlanItem: explore scenario Scn with at most D deviations.
type PlanItem struct {
	Scn *Scenario
	D   int
}

type propDef struct {
	Level  string
	Rule   string
	Assume []string
	Plan   func(tier string) []PlanItem
	Direct func(c *CheckCtx) // non-scheduler enumerations (C14..C17 ...)
	After  func(c *CheckCtx) // extra work after the exploration
}

var props = map[string]*propDef{}

type Known struct {
	Status    string `json:"status"` // known | fixed
	Property  string `json:"property"`
	Signature string `json:"signature,omitempty"`
	Commit    string `json:"commit,omitempty"`
	What      string `json:"what"`
}

type CheckCtx struct {
	Prop    string
	Tier    string
	Seed    int
	Exe     string
	Dir     string // scratch
	OutDir  string // /verif
	Budget  time.Duration
	Workers int
	start   time.Time

	mu            sync.Mutex
	execs         int
	steps         int
	diverg        int
	stuckEx       int
	hashes        map[uint64]bool
	nontriv       map[uint64]bool
	fps           map[uint64]bool
	viols         map[string]*Violation // by signature: fewest-choices witness
	crashes       []Violation
	samples       []*Sample
	perScn        map[string]*scnStat
	maxPts        int
	notes         []string
	extra         map[string]any
	altViols      map[string]map[string]*Violation
	capped        bool
	known         []Known
	harnessNondet int
	harnessErrs   int
}

type scnStat struct {
	D        int  `json:"max_deviations"`
	Execs    int  `json:"executions"`
	Done     bool `json:"completed"`
	Diverg   int  `json:"divergences,omitempty"`
	jobsOpen int
}

func (c *CheckCtx) loadKnown() {
	b, err := os.ReadFile(filepath.Join(c.OutDir, "known_findings.json"))
	if err != nil {
		return
	}
	var f struct {
		Findings []Known `json:"findings"`
	}
	if json.Unmarshal(b, &f) == nil {
		c.known = f.Findings
	}
}

func (c *CheckCtx) isKnown(sig string) *Known {
	for i := range c.known {
		k := &c.known[i]
		if k.Status == "known" && k.Property == c.Prop && k.Signature == sig {
			return k
		}
	}
	return nil
}

func (c *CheckCtx) addViol(v Violation) {
	c.mu.Lock()
	defer c.mu.Unlock()
	better := func(a Violation, b *Violation) bool {
		return b == nil || len(a.Chosen) < len(b.Chosen) || (len(a.Chosen) == len(b.Chosen) && strings.Join(a.Chosen, ",") < strings.Join(b.Chosen, ","))
	}
	if better(v, c.viols[v.Sig]) {
		vv := v
		c.viols[v.Sig] = &vv
	}
	// alternative witnesses: the shortest one of each other scenario (up to 6). A witness
	// that does not reproduce 5/5 (a coincidence of two goroutines at one virtual instant)
	// must not make a signature disappear that other executions show deterministically.
	if c.altViols == nil {
		c.altViols = map[string]map[string]*Violation{}
	}
	m := c.altViols[v.Sig]
	if m == nil {
		m = map[string]*Violation{}
		c.altViols[v.Sig] = m
	}
	if _, seen := m[v.Scn]; seen || len(m) < 6 {
		if better(v, m[v.Scn]) {
			vv := v
			m[v.Scn] = &vv
		}
	}
}

// crashSig turns a worker's dying words into a stable signature. Only the panicking
// goroutine (the first block after the panic line) is considered; a panic raised by
// the harness itself is reported as such and never attributed to the library.
func crashSig(stderr string) (sig, msg string) {
	lines := strings.Split(stderr, "\n")
	for i, l := range lines {
		if !strings.HasPrefix(l, "panic:") && !strings.HasPrefix(l, "fatal error:") {
			continue
		}
		first := strings.TrimSpace(l)
		if strings.Contains(first, "harness:") {
			return "harness-bug", first
		}
		// frames of the first goroutine block
		inBlock := false
		for _, m := range lines[i+1:] {
			if strings.HasPrefix(m, "goroutine ") {
				if inBlock {
					break
				}
				inBlock = true
				continue
			}
			if !inBlock || strings.HasPrefix(m, "\t") || strings.HasPrefix(m, "created by") || m == "" {
				if inBlock && m == "" {
					break
				}
				continue
			}
			if strings.HasPrefix(m, "runtime.") || strings.HasPrefix(m, "panic(") || strings.HasPrefix(m, "testing.") || strings.HasPrefix(m, "internal/") || strings.HasPrefix(m, "sync.") {
				continue
			}
			if strings.Contains(m, "verifshim/") {
				continue // shim lock/atomic called by the library: attribute to the caller
			}
			if strings.Contains(m, "verif/harness.") {
				return "harness-bug", first + " in " + m
			}
			if j := strings.Index(m, leaderPkg); j >= 0 {
				fn := m[j+len(leaderPkg):]
				if k := strings.LastIndex(fn, "("); k > 0 {
					fn = fn[:k]
				}
				return "crash/panic/" + fn, first + " in " + fn
			}
			return "crash/panic/other", first + " in " + m
		}
		return "crash/panic", first
	}
	tail := stderr
	if len(tail) > 300 {
		tail = tail[len(tail)-300:]
	}
	return "crash/worker-died", tail
}

// RunCheck is the entry point of `check <prop>`.
func RunCheck(c *CheckCtx) int {
	c.start = time.Now()
	c.hashes, c.nontriv, c.fps = map[uint64]bool{}, map[uint64]bool{}, map[uint64]bool{}
	c.viols, c.perScn, c.extra = map[string]*Violation{}, map[string]*scnStat{}, map[string]any{}
	c.loadKnown()
	pd := props[c.Prop]
	if pd == nil {
		fmt.Fprintf(os.Stderr, "unknown property %s\n", c.Prop)
		return 2
	}
	if c.Workers == 0 {
		c.Workers = runtime.NumCPU()
	}
	if pd.Direct != nil {
		pd.Direct(c)
	}
	if pd.Plan != nil {
		items := pd.Plan(c.Tier)
		if only := os.Getenv("MCX_ONLY"); only != "" {
			// debugging aid: restrict the plan to scenarios whose name contains the string
			var keep []PlanItem
			for _, it := range items {
				if strings.Contains(it.Scn.Name, only) {
					keep = append(keep, it)
				}
			}
			items = keep
			c.notes = append(c.notes, "MCX_ONLY="+only+": plan restricted (debug run, not a registered check)")
			c.capped = true
		}
		if c.Seed != 0 && len(items) > 1 {
			k := c.Seed % len(items)
			if k < 0 {
				k = -k
			}
			items = append(items[k:], items[:k]...)
		}
		if !c.selfTest(items) {
			// Some schedule of some scenario gave two different traces. The exploration still
			// runs (a change to the library that makes executions nondeterministic, e.g. by
			// multiplying goroutines, must not switch the check off), nothing is called
			// exhaustive, and a violation is reported only if its witness reproduces 5/5
			// (DESIGN §2.5).
			c.notes = append(c.notes, "determinism self-test failed: exploration not exhaustive, violations need a 5/5 reproducible witness")
			c.capped = true
		}
		c.explore(items)
	}
	if pd.After != nil {
		pd.After(c)
	}
	return c.finish(pd)
}

func (c *CheckCtx) newPool() *Pool {
	p := NewPool(c.Exe, c.Workers, c.Dir)
	if c.Budget > 0 {
		p.deadline = c.start.Add(c.Budget)
	}
	return p
}

// selfTest: a fixed set of schedules is executed twice; traces must be identical.
func (c *CheckCtx) selfTest(items []PlanItem) bool {
	p := NewPool(c.Exe, c.Workers, c.Dir)
	type key struct {
		scn string
		k   int
	}
	var mu sync.Mutex
	got := map[key][]uint64{}
	ok := true
	p.onDone = func(j *Job, r *JobResult) {
		mu.Lock()
		defer mu.Unlock()
		k := key{j.Tag, j.TagK}
		if r.Divergences > 0 {
			ok = false
			c.notes = append(c.notes, fmt.Sprintf("self-test divergence in %s", k.scn))
		}
		got[k] = append(got[k], r.Hashes...)
	}
	p.onCrash = func(j *Job, prefix []string, stderr string) {}
	// first: default run of each scenario to obtain alternatives
	var first sync.Mutex
	alts := map[string][][]string{}
	p0 := NewPool(c.Exe, c.Workers, c.Dir)
	p0.onCrash = func(j *Job, prefix []string, stderr string) {}
	p0.onDone = func(j *Job, r *JobResult) {
		first.Lock()
		alts[j.Tag] = r.Children
		first.Unlock()
	}
	seenScn := map[string]bool{}
	for _, it := range items {
		if seenScn[it.Scn.Name] || len(seenScn) >= 24 {
			continue
		}
		seenScn[it.Scn.Name] = true
		p0.Submit(&Job{Prop: c.Prop, Scn: it.Scn, Budget: 1, Split: true, Tag: it.Scn.Name})
	}
	p0.Run()
	seenScn = map[string]bool{}
	for _, it := range items {
		if seenScn[it.Scn.Name] || len(seenScn) >= 24 {
			continue
		}
		seenScn[it.Scn.Name] = true
		ch := alts[it.Scn.Name]
		picks := [][]string{nil}
		if n := len(ch); n > 0 {
			picks = append(picks, ch[0], ch[n/2], ch[n-1])
		}
		for k, pre := range picks {
			for rep := 0; rep < 2; rep++ {
				p.Submit(&Job{Prop: c.Prop, Scn: it.Scn, Prefix: pre, Replay: true, Tag: it.Scn.Name, TagK: k})
			}
		}
	}
	p.Run()
	for k, hs := range got {
		if len(hs) == 2 && hs[0] != hs[1] {
			ok = false
			c.notes = append(c.notes, fmt.Sprintf("self-test: schedule %d of %s gave two different traces", k.k, k.scn))
		}
	}
	c.extra["selftest_schedules"] = len(got)
	return ok
}

func (c *CheckCtx) explore(items []PlanItem) {
	p := c.newPool()
	p.onCrash = func(j *Job, prefix []string, stderr string) {
		sig, msg := crashSig(stderr)
		if sig == "harness-bug" || sig == "crash/worker-died" {
			c.mu.Lock()
			c.harnessErrs++
			if c.harnessErrs <= 3 {
				fmt.Fprintf(os.Stderr, "check: HARNESS ERROR (not a property violation) in %s after %v: %s\n", j.Scn.Name, prefix, msg)
			}
			c.capped = true
			c.mu.Unlock()
			return
		}
		c.addViol(Violation{Prop: c.Prop, Sig: sig, Msg: "worker process died: " + msg, Scn: j.Scn.Name, Chosen: prefix})
		c.mu.Lock()
		c.execs++
		c.mu.Unlock()
	}
	p.onDone = func(j *Job, r *JobResult) {
		c.mu.Lock()
		c.execs += r.Execs
		c.steps += r.Steps
		c.diverg += r.Divergences
		c.stuckEx += r.Stuck
		if r.MaxPoints > c.maxPts {
			c.maxPts = r.MaxPoints
		}
		for _, h := range r.Hashes {
			c.hashes[h] = true
		}
		for _, h := range r.NonTrivial {
			c.nontriv[h] = true
		}
		for _, f := range r.FPs {
			c.fps[f] = true
		}
		st := c.perScn[j.Scn.Name]
		st.Execs += r.Execs
		st.Diverg += r.Divergences
		if r.Sample != nil && len(c.samples) < 3 {
			dup := false
			for _, s := range c.samples {
				if s.Scn == r.Sample.Scn {
					dup = true
				}
			}
			if !dup {
				c.samples = append(c.samples, r.Sample)
			}
		}
		c.mu.Unlock()
		for _, v := range r.Viol {
			c.addViol(v)
		}
		for _, ch := range r.Children {
			nb := j.Budget - 1
			nj := &Job{Prop: c.Prop, Scn: j.Scn, Prefix: ch, Budget: nb, Split: nb >= 2}
			p.Submit(nj)
		}
	}
	for _, it := range items {
		st := c.perScn[it.Scn.Name]
		if st == nil {
			st = &scnStat{}
			c.perScn[it.Scn.Name] = st
		}
		if it.D > st.D {
			st.D = it.D
		}
		p.Submit(&Job{Prop: c.Prop, Scn: it.Scn, Budget: it.D, Split: it.D >= 2})
	}
	p.Run()
	if p.Expired {
		c.capped = true
		c.notes = append(c.notes, "wall-clock budget reached: exploration incomplete")
	}
	for _, st := range c.perScn {
		st.Done = !p.Expired
	}
	c.extra["worker_crashes"] = p.Crashes
	c.extra["worker_restarts"] = p.Restarts
}

// confirm replays a violation five times; it must reproduce with the same signature.
func (c *CheckCtx) confirm(v *Violation, scn *Scenario) (bool, *Result) {
	p := NewPool(c.Exe, 1, c.Dir)
	hits, crashes := 0, 0
	var res *Result
	p.onDone = func(j *Job, r *JobResult) {
		for _, x := range r.Viol {
			if x.Sig == v.Sig {
				hits++
				break
			}
		}
		if r.Res != nil {
			res = r.Res
		}
	}
	p.onCrash = func(j *Job, prefix []string, stderr string) {
		sig, _ := crashSig(stderr)
		if sig == v.Sig {
			crashes++
		}
	}
	for i := 0; i < 5; i++ {
		p.Submit(&Job{Prop: c.Prop, Scn: scn, Prefix: v.Chosen, Replay: true, Trace: i == 4})
	}
	p.Run()
	if os.Getenv("MCX_DEBUG") != "" {
		fmt.Fprintf(os.Stderr, "confirm %s on %s: hits=%d crashes=%d prefixlen=%d\n", v.Sig, scn.Name, hits, crashes, len(v.Chosen))
	}
	return hits == 5 || crashes == 5, res
}

func (c *CheckCtx) scenarioByName(pd *propDef, name string) *Scenario {
	if pd.Plan == nil {
		return nil
	}
	for _, it := range pd.Plan(c.Tier) {
		if it.Scn.Name == name {
			return it.Scn
		}
	}
	return nil
}

type ReplayFile struct {
	Property  string    `json:"property"`
	Signature string    `json:"signature"`
	Message   string    `json:"message"`
	Scenario  *Scenario `json:"scenario"`
	ScnName   string    `json:"scenario_name"`
	Choices   []string  `json:"choices"`
	Trace     []Ev      `json:"trace,omitempty"`
	Ops       []*Op     `json:"ops,omitempty"`
	Extra     any       `json:"extra,omitempty"`
}

func (c *CheckCtx) writeReplay(rf *ReplayFile) string {
	h := sha1.Sum([]byte(rf.Signature + "|" + rf.ScnName + "|" + strings.Join(rf.Choices, ",")))
	dir := filepath.Join(c.OutDir, "replays")
	os.MkdirAll(dir, 0o755)
	path := filepath.Join(dir, fmt.Sprintf("%s-%x.json", c.Prop, h[:5]))
	b, _ := json.MarshalIndent(rf, "", " ")
	os.WriteFile(path, b, 0o644)
	return path
}

// DirectViolation is used by the non-scheduler enumerations.
func (c *CheckCtx) DirectViolation(sig, msg string, extra any) {
	c.mu.Lock()
	defer c.mu.Unlock()
	if c.viols[sig] == nil {
		c.viols[sig] = &Violation{Prop: c.Prop, Sig: sig, Msg: msg, Scn: "direct"}
		if c.extra["direct_witness"] == nil {
			c.extra["direct_witness"] = map[string]any{}
		}
		c.extra["direct_witness"].(map[string]any)[sig] = extra
	}
}

func (c *CheckCtx) finish(pd *propDef) int {
	sigs := make([]string, 0, len(c.viols))
	for s := range c.viols {
		sigs = append(sigs, s)
	}
	sort.Strings(sigs)
	newViol, knownHits := 0, 0
	var vlist []map[string]any
	for _, s := range sigs {
		v := c.viols[s]
		var res *Result
		if v.Scn != "direct" {
			scn := c.scenarioByName(pd, v.Scn)
			if scn == nil {
				continue
			}
			ok, r := c.confirm(v, scn)
			if !ok {
				// try the shortest witnesses from other scenarios
				var alts []*Violation
				for _, a := range c.altViols[s] {
					if a.Scn != v.Scn {
						alts = append(alts, a)
					}
				}
				sort.Slice(alts, func(i, j int) bool {
					if len(alts[i].Chosen) != len(alts[j].Chosen) {
						return len(alts[i].Chosen) < len(alts[j].Chosen)
					}
					return alts[i].Scn < alts[j].Scn
				})
				for _, a := range alts {
					ascn := c.scenarioByName(pd, a.Scn)
					if ascn == nil {
						continue
					}
					if ok2, r2 := c.confirm(a, ascn); ok2 {
						c.notes = append(c.notes, fmt.Sprintf("signature %q: witness in %s did not reproduce 5/5, witness in %s did", s, v.Scn, a.Scn))
						c.capped = true
						ok, r, v = true, r2, a
						break
					}
				}
			}
			if !ok {
				c.harnessNondet++
				c.capped = true
				// keep the witness for analysis (never reported as a violation)
				urf := &ReplayFile{Property: c.Prop, Signature: "UNCONFIRMED " + s, Message: v.Msg, ScnName: v.Scn, Choices: v.Chosen, Scenario: scn}
				up := c.writeReplay(urf)
				c.notes = append(c.notes, fmt.Sprintf("signature %q (scenario %s, %d choices) did not reproduce 5/5 on replay: treated as harness nondeterminism; witness kept at %s", s, v.Scn, len(v.Chosen), up))
				continue
			}
			res = r
		}
		rf := &ReplayFile{Property: c.Prop, Signature: s, Message: v.Msg, ScnName: v.Scn, Choices: v.Chosen}
		if res != nil {
			rf.Scenario, rf.Trace, rf.Ops = res.Scn, res.Trace, res.Ops
		} else if pd.Plan != nil {
			rf.Scenario = c.scenarioByName(pd, v.Scn)
		}
		if dw, ok := c.extra["direct_witness"].(map[string]any); ok {
			rf.Extra = dw[s]
		}
		if k := c.isKnown(s); k != nil {
			knownHits++
			fmt.Printf("KNOWN-FINDING: property=%s %s [%s]\n", c.Prop, k.What, s)
			vlist = append(vlist, map[string]any{"signature": s, "known": true, "message": v.Msg})
			continue
		}
		path := c.writeReplay(rf)
		newViol++
		fmt.Printf("VIOLATION property=%s replay=%s\n", c.Prop, path)
		fmt.Printf("  signature: %s\n  %s\n  scenario %s, %d choices\n", s, v.Msg, v.Scn, len(v.Chosen))
		vlist = append(vlist, map[string]any{"signature": s, "known": false, "message": v.Msg, "replay": path})
	}
	delete(c.extra, "direct_witness")
	c.writeEvidence(pd, newViol, vlist)
	if newViol > 0 {
		return 1
	}
	return 0
}

func (c *CheckCtx) writeEvidence(pd *propDef, nviol int, vlist []map[string]any) {
	cov := map[string]any{}
	if pd.Plan != nil {
		cov["evaluations"] = c.execs
		cov["distinct_nontrivial"] = len(c.nontriv)
		cov["distinct_traces"] = len(c.hashes)
		cov["states"] = len(c.fps)
		cov["transitions"] = c.steps
		cov["divergences"] = c.diverg
		cov["executions_with_stuck_goroutines"] = c.stuckEx
		cov["max_choice_points"] = c.maxPts
		if len(c.perScn) <= 80 {
			cov["scenarios"] = c.perScn
		} else {
			cov["scenario_count"] = len(c.perScn)
			div := map[string]int{}
			for k, v := range c.perScn {
				if v.Diverg > 0 {
					div[k] = v.Diverg
				}
			}
			if len(div) > 0 {
				cov["scenarios_with_divergences"] = div
			}
		}
		var ss []any
		for _, s := range c.samples {
			ss = append(ss, s)
		}
		if len(ss) == 0 {
			ss = append(ss, "no non-trivial execution")
		}
		cov["samples"] = ss
	}
	for k, v := range c.extra {
		cov[k] = v
	}
	if _, ok := cov["rule"]; !ok {
		cov["rule"] = pd.Rule
	}
	if _, ok := cov["exhaustive"]; !ok {
		cov["exhaustive"] = !c.capped && c.diverg == 0
	} else if c.capped {
		cov["exhaustive"] = false
	}
	if len(c.notes) > 0 {
		cov["notes"] = c.notes
	}
	if len(vlist) > 0 {
		cov["violations_detail"] = vlist
	}
	cov["harness_nondeterminism"] = c.harnessNondet
	cov["harness_errors"] = c.harnessErrs
	ev := map[string]any{
		"property_id": c.Prop,
		"tier":        c.Tier,
		"seed":        c.Seed,
		"level":       pd.Level,
		"coverage":    cov,
		"assumptions": pd.Assume,
		"wall_s":      time.Since(c.start).Seconds(),
		"violations":  nviol,
	}
	dir := filepath.Join(c.OutDir, "evidence")
	os.MkdirAll(dir, 0o755)
	b, _ := json.MarshalIndent(ev, "", " ")
	os.WriteFile(filepath.Join(dir, c.Prop+".json"), b, 0o644)
}
