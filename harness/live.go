package harness

import (
	"fmt"
	"os"
	"path/filepath"
	"time"

	"github.com/ali-assar/NATS-Leader-Election/leader"
	"github.com/nats-io/nats-server/v2/server"
	"github.com/nats-io/nats.go"
)

// liveEnv: an embedded nats-server (loopback, memory storage) plus connections; the
// library's real adapter is obtained through the verif-tagged hook.
type liveEnv struct {
	srv   *server.Server
	dir   string
	conns []*nats.Conn
}

func startLive(scratch string) (*liveEnv, error) {
	dir, err := os.MkdirTemp(scratch, "nats-js-")
	if err != nil {
		return nil, err
	}
	opts := &server.Options{ServerName: "verif", JetStream: true, StoreDir: dir, Port: -1, Host: "127.0.0.1", NoLog: true, NoSigs: true}
	s, err := server.NewServer(opts)
	if err != nil {
		os.RemoveAll(dir)
		return nil, err
	}
	go s.Start()
	if !s.ReadyForConnections(10 * time.Second) {
		os.RemoveAll(dir)
		return nil, fmt.Errorf("embedded nats-server not ready")
	}
	return &liveEnv{srv: s, dir: dir}, nil
}

func (l *liveEnv) connect() (*nats.Conn, error) {
	nc, err := nats.Connect(l.srv.ClientURL(), nats.MaxReconnects(0))
	if err != nil {
		return nil, err
	}
	l.conns = append(l.conns, nc)
	return nc, nil
}

// bucket creates (or opens) a memory-storage bucket and returns the raw nats.KeyValue
// and the library adapter over it.
func (l *liveEnv) bucket(nc *nats.Conn, name string, maxAge time.Duration) (nats.KeyValue, leader.KeyValue, error) {
	js, err := nc.JetStream()
	if err != nil {
		return nil, nil, err
	}
	kv, err := js.CreateKeyValue(&nats.KeyValueConfig{Bucket: name, TTL: maxAge, Storage: nats.MemoryStorage, History: 64})
	if err != nil {
		return nil, nil, err
	}
	return kv, leader.VerifNewKeyValueAdapter(kv), nil
}

func (l *liveEnv) stop() {
	for _, c := range l.conns {
		c.Close()
	}
	if l.srv != nil {
		l.srv.Shutdown()
		l.srv.WaitForShutdown()
	}
	if l.dir != "" {
		os.RemoveAll(l.dir)
	}
	// nats-server also leaves nothing else behind
	_ = filepath.Join
}
