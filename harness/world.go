package harness

import (
	"context"
	"fmt"
	"runtime"
	"sort"
	"strings"
	"sync"
	"sync/atomic"
	"time"

	"github.com/ali-assar/NATS-Leader-Election/leader"
	"github.com/nats-io/nats.go"
)

// ---------------------------------------------------------------------------
// Ops: one gated interaction of the library with the outside world.

type Op struct {
	ID    string `json:"id"`
	Inst  string `json:"inst"`
	Kind  string `json:"kind"` // Create Update Get Delete Watch Rand Health
	Label string `json:"label"`
	Key   string `json:"key,omitempty"`
	Val   []byte `json:"val,omitempty"`
	Rev   uint64 `json:"rev,omitempty"` // expected revision (Update)

	TIssue   time.Duration `json:"t_issue"`
	TApply   time.Duration `json:"t_apply"`
	TAnswer  time.Duration `json:"t_answer"`
	Applied  bool          `json:"applied"`
	Answered bool          `json:"answered"`
	Fault    string        `json:"fault,omitempty"` // "", "err:<kind>", "lost", "hang", "closed"

	NotBefore time.Duration `json:"-"`
	Deadline  time.Duration `json:"-"` // fault-free classes: must be answered by then

	ResRev  uint64 `json:"res_rev,omitempty"`
	ErrText string `json:"err,omitempty"`
	resErr  error
	resEnt  leader.Entry
	resW    *HWatcher
	resF    float64
	resB    bool

	Wrote        *Msg `json:"wrote,omitempty"`
	Replaced     *Msg `json:"replaced,omitempty"`      // latest unexpired message at apply time (may be a tombstone)
	ReplacedLive bool `json:"replaced_live,omitempty"` // Replaced is a live put
	Read         *Msg `json:"read,omitempty"`          // Get: the message observed (nil = not found)
	InStop       bool `json:"in_stop,omitempty"`       // issued from inside a StopWithContext call

	Deadl time.Time     `json:"-"` // Health: ctx deadline
	HasDl bool          `json:"-"`
	DlIn  time.Duration `json:"dl_in,omitempty"`

	ctx  context.Context
	done chan struct{}
	gid  int
}

func (o *Op) isStoreOp() bool {
	switch o.Kind {
	case "Create", "Update", "Get", "Delete", "Watch":
		return true
	}
	return false
}

// ---------------------------------------------------------------------------
// Watchers

type WEvent struct {
	Nil bool
	Msg *Msg
}

type HWatcher struct {
	ID      string
	Inst    string
	Key     string
	ch      chan leader.Entry
	queue   []WEvent
	stopped bool
	closed  bool
	w       *World
	nDeliv  int
}

func (hw *HWatcher) Updates() <-chan leader.Entry { return hw.ch }
func (hw *HWatcher) Stop() {
	hw.w.lock()
	hw.stopped = true
	hw.queue = nil
	hw.w.unlock()
}

type hEntry struct {
	key string
	val []byte
	rev uint64
}

func (e *hEntry) Key() string      { return e.key }
func (e *hEntry) Value() []byte    { return e.val }
func (e *hEntry) Revision() uint64 { return e.rev }

// ---------------------------------------------------------------------------
// The gated KeyValue handed to the library (one per instance).

type HKV struct {
	w    *World
	inst string
}

func (kv *HKV) Create(key string, value []byte, opts ...interface{}) (uint64, error) {
	op := kv.w.submit(&Op{Inst: kv.inst, Kind: "Create", Key: key, Val: append([]byte(nil), value...)})
	return op.ResRev, op.resErr
}
func (kv *HKV) Update(key string, value []byte, rev uint64, opts ...interface{}) (uint64, error) {
	op := kv.w.submit(&Op{Inst: kv.inst, Kind: "Update", Key: key, Val: append([]byte(nil), value...), Rev: rev})
	return op.ResRev, op.resErr
}
func (kv *HKV) Get(key string) (leader.Entry, error) {
	op := kv.w.submit(&Op{Inst: kv.inst, Kind: "Get", Key: key})
	if op.resErr != nil {
		return nil, op.resErr
	}
	return op.resEnt, nil
}
func (kv *HKV) Delete(key string) error {
	op := kv.w.submit(&Op{Inst: kv.inst, Kind: "Delete", Key: key})
	return op.resErr
}
func (kv *HKV) Watch(key string, opts ...interface{}) (leader.Watcher, error) {
	op := kv.w.submit(&Op{Inst: kv.inst, Kind: "Watch", Key: key})
	if op.resErr != nil {
		return nil, op.resErr
	}
	return op.resW, nil
}

type hJS struct{ kv *HKV }

func (j *hJS) KeyValue(bucket string) (leader.KeyValue, error) {
	j.kv.w.providerCalls++
	return j.kv, nil
}

type hProvider struct{ kv *HKV }

func (p *hProvider) JetStream() (leader.JetStreamContext, error) {
	p.kv.w.providerCalls++
	return &hJS{p.kv}, nil
}

// hConnProvider additionally exposes an (unconnected) *nats.Conn so that the library
// wires its connection monitor; notifications are injected through the handlers the
// monitor registers on it.
type hConnProvider struct {
	hProvider
	conn *nats.Conn
}

func (p *hConnProvider) NATSConnection() *nats.Conn { return p.conn }

// ---------------------------------------------------------------------------
// labels from the call path

var labelRules = []struct{ frag, label string }{
	{".heartbeatLoop", "hb"},
	{".attemptPriorityTakeover", "takeover"},
	{".verifyLeadershipAfterReconnect", "reconn"},
	{".validateToken", "validate"},
	{".checkKeyAndReelect", "check"},
	{".attemptAcquire", "acquire"}, // also matches attemptAcquireWithRetry
	{".watchLoop", "watch"},
	{".watchOnce", "watch"},
	{".StopWithContext", "shutdown"},
	{".Stop", "shutdown"},
	{".CalculateBackoff", "backoff"},
}

const leaderPkg = "NATS-Leader-Election/leader."

// callPath returns the label of the innermost library function on the stack and
// whether a StopWithContext frame is on it.
func callPath() (label string, inStop bool, inWatchLoop bool) {
	var pcs [48]uintptr
	n := runtime.Callers(3, pcs[:])
	frames := runtime.CallersFrames(pcs[:n])
	label = ""
	for {
		f, more := frames.Next()
		fn := f.Function
		if strings.Contains(fn, leaderPkg) {
			if label == "" {
				lab := ""
				for _, r := range labelRules {
					if strings.Contains(fn, r.frag) {
						lab = r.label
						break
					}
				}
				if lab == "" {
					i := strings.LastIndex(fn, leaderPkg)
					lab = "other:" + fn[i+len(leaderPkg):]
				}
				label = lab
			}
			if strings.Contains(fn, ".StopWithContext") {
				inStop = true
			}
			if strings.HasSuffix(fn, ").watchLoop") {
				inWatchLoop = true
			}
		}
		if !more {
			break
		}
	}
	if label == "" {
		label = "ext"
	}
	return
}

// ---------------------------------------------------------------------------
// World

type World struct {
	scn   *Scenario
	epoch time.Time
	mu    sync.Mutex

	store *Store
	insts map[string]*Inst
	order []string

	pending  []*Op
	ops      []*Op
	opCount  map[string]int
	watchers []*HWatcher
	nWatch   map[string]int

	trace   []Ev
	wake    chan struct{}
	closing bool

	rootCtx    context.Context
	rootCancel context.CancelFunc

	actors []*actor

	stepTarget    string // instance the current step is directed to
	curEvent      string // name of the event being executed
	providerCalls int

	muOwner  atomic.Int64
	helpers  map[int]bool // harness helper goroutines (snapshot readers): never parked
	fineOn   bool
	fineUsed bool
	parked   []*parkedG
	lastRun  string
	finePts  int
	gnames   map[int]string
	apiNames map[int]string // goroutine id -> script item of the API call it executes
	glabels  map[string]int

	baseGor     int
	fired       []bool
	tokNames    map[string]string
	harnessBusy bool

	opsThisInstant map[string]int
	instantAt      time.Duration
	spin           string
	verbose        bool
}

func (w *World) now() time.Duration { return time.Since(w.epoch) }

// lock/unlock guard the harness state. In fine mode the owner is recorded so that
// library calls made by harness code while it holds the lock (IsLeader() inside a
// metrics callback, ...) are not treated as scheduling points of the library.
func (w *World) lock() {
	w.mu.Lock()
	if w.scn.FineAt != "" || w.scn.FineFrom != "" {
		w.muOwner.Store(int64(curGID()))
	}
}

func (w *World) unlock() {
	w.muOwner.Store(0)
	w.mu.Unlock()
}

func (w *World) signal() {
	select {
	case w.wake <- struct{}{}:
	default:
	}
}

// submit registers a gated operation and blocks the calling (library) goroutine
// until the scheduler answers it.
func (w *World) submit(op *Op) *Op {
	label, inStop, inWL := callPath()
	w.lock()
	if op.Label == "" {
		op.Label = label
	}
	if inWL && op.Label == "check" {
		op.Label = "pcheck" // periodic check executed synchronously by the watch loop
	}
	op.InStop = inStop
	op.gid = curGID()
	op.TIssue = w.now()
	key := op.Inst + "." + op.Label + "." + op.Kind
	w.opCount[key]++
	op.ID = fmt.Sprintf("%s#%d", key, w.opCount[key])
	op.done = make(chan struct{})
	if w.instantAt != op.TIssue {
		w.instantAt = op.TIssue
		w.opsThisInstant = map[string]int{}
	}
	w.opsThisInstant[op.Inst]++
	if w.opsThisInstant[op.Inst] > 64 && w.spin == "" {
		w.spin = fmt.Sprintf("instance %s issued >64 operations at virtual instant %v (last %s)", op.Inst, op.TIssue, op.ID)
	}
	w.ops = append(w.ops, op)
	in := w.insts[op.Inst]
	if w.closing || w.spin != "" {
		op.Fault = "closed"
		op.resErr = nats.ErrConnectionClosed
		op.ErrText = op.resErr.Error()
		op.Answered = true
		op.TAnswer = op.TIssue
		if op.Kind == "Rand" {
			op.resF = 0.5
		}
		w.unlock()
		if w.spin != "" {
			// break zero-time loops: park for a virtual millisecond so that the bubble
			// makes progress and the run can be torn down and reported
			time.Sleep(time.Millisecond)
		}
		return op
	}
	if w.scn.LatencyBound > 0 && op.isStoreOp() && (in == nil || !in.cut()) {
		op.Deadline = op.TIssue + w.scn.LatencyBound
	}
	w.pending = append(w.pending, op)
	w.ev(Ev{K: "op.issue", I: op.Inst, Op: op.ID})
	w.unlock()
	w.signal()
	<-op.done
	return op
}

func (w *World) ev(e Ev) {
	e.T = w.now()
	w.trace = append(w.trace, e)
}

func (w *World) evL(e Ev) {
	w.lock()
	w.ev(e)
	w.unlock()
}

// answer completes op: the library goroutine resumes.
func (w *World) answer(op *Op) {
	op.Answered = true
	op.TAnswer = w.now()
	if op.resErr != nil {
		op.ErrText = op.resErr.Error()
	}
	for i, p := range w.pending {
		if p == op {
			w.pending = append(w.pending[:i:i], w.pending[i+1:]...)
			break
		}
	}
	w.ev(Ev{K: "op.answer", I: op.Inst, Op: op.ID, S: op.ErrText})
	close(op.done)
}

// apply executes the op's effect on the reference store at the current instant.
func (w *World) apply(op *Op) {
	now := w.now()
	op.Applied = true
	op.TApply = now
	st := w.store
	switch op.Kind {
	case "Create":
		m, cur, err := st.Create(op.Key, op.Val, now, op.Inst, op.ID)
		op.Replaced, op.ReplacedLive = cur, cur != nil && !cur.Del
		if err != nil {
			op.resErr = err
		} else {
			op.Wrote, op.ResRev = m, m.Rev
			w.fanout(m)
		}
	case "Update":
		m, cur, err := st.Update(op.Key, op.Val, op.Rev, now, op.Inst, op.ID)
		op.Replaced, op.ReplacedLive = cur, cur != nil && !cur.Del
		if err != nil {
			op.resErr = err
		} else {
			op.Wrote, op.ResRev = m, m.Rev
			w.fanout(m)
		}
	case "Delete":
		m, cur := st.Delete(op.Key, now, op.Inst, op.ID)
		op.Replaced, op.ReplacedLive = cur, cur != nil && !cur.Del
		op.Wrote = m
		w.fanout(m)
	case "Get":
		m, err := st.Get(op.Key, now)
		if err != nil {
			op.resErr = err
		} else {
			op.Read = m
			op.ResRev = m.Rev
			op.resEnt = &hEntry{key: m.Key, val: append([]byte(nil), m.Val...), rev: m.Rev}
		}
	case "Watch":
		w.nWatch[op.Inst]++
		hw := &HWatcher{ID: fmt.Sprintf("w%s%d", op.Inst, w.nWatch[op.Inst]), Inst: op.Inst, Key: op.Key,
			ch: make(chan leader.Entry, 1024), w: w}
		if m := st.latest(op.Key, now); m != nil {
			hw.queue = append(hw.queue, WEvent{Msg: m})
		}
		hw.queue = append(hw.queue, WEvent{Nil: true})
		w.watchers = append(w.watchers, hw)
		op.resW = hw
	}
	w.ev(Ev{K: "op.apply", I: op.Inst, Op: op.ID})
}

func (w *World) fanout(m *Msg) {
	for _, hw := range w.watchers {
		if hw.Key == m.Key && !hw.stopped && !hw.closed {
			hw.queue = append(hw.queue, WEvent{Msg: m})
		}
	}
}

func (w *World) deliver(hw *HWatcher, ev WEvent) {
	hw.nDeliv++
	if ev.Nil {
		hw.ch <- nil
		return
	}
	m := ev.Msg
	var val []byte
	if !m.Del {
		val = append([]byte(nil), m.Val...)
	}
	hw.ch <- &hEntry{key: m.Key, val: val, rev: m.Rev}
}

// ---------------------------------------------------------------------------
// enabled events

type Event struct {
	Name string
	run  func()
	tgt  string
}

func (w *World) sortedPending() []*Op {
	ps := append([]*Op(nil), w.pending...)
	sort.SliceStable(ps, func(i, j int) bool {
		if ps[i].TIssue != ps[j].TIssue {
			return ps[i].TIssue < ps[j].TIssue
		}
		return ps[i].ID < ps[j].ID
	})
	return ps
}

// pcheckBusy: the instance's watch loop goroutine is inside its periodic Get.
func (w *World) pcheckBusy(inst string) bool {
	for _, p := range w.pending {
		if p.Inst == inst && p.Label == "pcheck" {
			return true
		}
	}
	return false
}

// curGID returns the id of the calling goroutine (used to group the ops of one
// acquisition round).
func curGID() int {
	var buf [64]byte
	n := runtime.Stack(buf[:], false)
	id := 0
	for _, ch := range buf[len("goroutine "):n] {
		if ch < '0' || ch > '9' {
			break
		}
		id = id*10 + int(ch-'0')
	}
	return id
}
