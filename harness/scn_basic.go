package harness

import "time"

func starts(ids ...string) []Item {
	var it []Item
	for i, id := range ids {
		it = append(it, Item{At: time.Duration(1+2*i)*ms + time.Duration(7*i)*us, Actor: "start" + id, Do: "start", Inst: id})
	}
	return it
}

func insts(ids ...string) []InstSpec {
	var s []InstSpec
	for _, id := range ids {
		s = append(s, InstSpec{ID: id})
	}
	return s
}

// S-elect(N): N instances start a few ms apart; run 3H+.
func scnElect(name string, k func(*Scenario) *Scenario, ids ...string) *Scenario {
	s := k(&Scenario{Name: name})
	s.Insts = insts(ids...)
	s.Script = starts(ids...)
	s.Horizon = 3*s.H + 100*ms
	return s.faultFree()
}

func init() {
	props["C02"] = &propDef{
		Level: "exploration",
		Rule:  "every execution (choice sequence) with at most D deviations from the default environment of each listed scenario; non-trivial = some instance reported leadership; distinct = distinct observation-trace hash",
		Assume: []string{"reference store semantics (validated by C14)", "participants bounded to 3 instances", "deviation bound as reported per scenario"},
		Plan: func(tier string) []PlanItem {
			d := 1
			if tier == "thorough" {
				d = 2
			}
			return []PlanItem{
				{scnElect("elect2-K1", K1, "A", "B"), d + 1},
				{scnElect("elect3-K1", K1, "A", "B", "C"), d},
			}
		},
	}
}
