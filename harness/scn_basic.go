package harness

import (
	"fmt"
	"time"
)

func starts(ids ...string) []Item {
	var it []Item
	for i, id := range ids {
		it = append(it, Item{At: time.Duration(1+2*i)*ms + time.Duration(7*i)*us, Actor: "start" + id, Do: "start", Inst: id})
	}
	return it
}

func insts(ids ...string) []InstSpec {
	var s []InstSpec
	for _, id := range ids {
		s = append(s, InstSpec{ID: id})
	}
	return s
}

type kfn func(*Scenario) *Scenario

// S-elect(N): N instances start a few ms apart; run 3H+.
func scnElect(name string, k kfn, ids ...string) *Scenario {
	s := k(&Scenario{Name: name})
	s.Insts = insts(ids...)
	s.Script = starts(ids...)
	s.Horizon = 3*s.H + 100*ms
	return s.faultFree()
}

// S-failover-del: A leads, others follow; A.StopWithContext{DeleteKey}; run on.
func scnFailoverDel(name string, k kfn, ids ...string) *Scenario {
	s := k(&Scenario{Name: name})
	s.Insts = insts(ids...)
	s.Script = starts(ids...)
	s.Script = append(s.Script, Item{At: 2*s.H + 53*ms, Actor: "stopA", Do: "stopctx", Inst: "A", DeleteKey: true})
	s.Horizon = 2*s.H + 53*ms + 1200*ms
	return s.faultFree()
}

// S-failover-twice: A leads, B and C follow; A stops and deletes its key, B wins the
// vacancy while C's acquisition round is left in its backoff; B stops and deletes shortly
// afterwards and C's pending retry wins. C's 500 ms periodic check ticks in between (it
// reads B's record); replies may arrive later than the store applied the operation.
func scnFailoverTwice(name string, k kfn) *Scenario {
	s := k(&Scenario{Name: name})
	s.Insts = insts("A", "B", "C")
	s.Script = starts("A", "B", "C")
	s.Script = append(s.Script,
		Item{At: 440 * ms, Actor: "stopA", Do: "stopctx", Inst: "A", DeleteKey: true, Fixed: true},
		Item{At: 520 * ms, Actor: "stopB", Do: "stopctx", Inst: "B", DeleteKey: true, Fixed: true})
	s.Horizon = 520*ms + 4*s.H
	s = s.faultFree()
	s.SplitApply = true
	s.RandMenu = nil
	s.DevFrom, s.DevUntil = 495*ms, 610*ms
	return s
}

// S-restart: A starts, is stopped (variant), starts again; B present.
func scnRestart(name string, k kfn, stop Item) *Scenario {
	s := k(&Scenario{Name: name})
	s.Insts = insts("A", "B")
	s.Script = starts("A", "B")
	stop.At, stop.Actor, stop.Inst = 1*s.H+31*ms, "lifeA", "A"
	s.Script = append(s.Script, stop, Item{At: 2*s.H + 77*ms, Actor: "lifeA", Do: "start", Inst: "A"})
	s.Horizon = 2*s.H + 77*ms + 900*ms
	return s.faultFree()
}

// S-restart2: A starts, is stopped, starts again (now a follower of its own stale record),
// and is finally shut down with DeleteKey; B present throughout. The explorer moves every
// life-cycle call.
func scnRestart2(name string, k kfn, first Item) *Scenario {
	s := k(&Scenario{Name: name})
	s.Insts = insts("A", "B")
	s.Script = starts("A", "B")
	first.At, first.Actor, first.Inst = 1*s.H+31*ms, "lifeA", "A"
	s.Script = append(s.Script, first,
		Item{At: 2*s.H + 77*ms, Actor: "lifeA", Do: "start", Inst: "A"},
		Item{At: 2*s.H + 77*ms + s.TTL + 150*ms, Actor: "lifeA", Do: "stopctx", Inst: "A", DeleteKey: true})
	s.Horizon = 2*s.H + 77*ms + s.TTL + 150*ms + 900*ms
	s = s.faultFree()
	s.AllowDrop = true
	return s
}

// S-restart-follower: B leads and shuts down with DeleteKey; the follower A is restarted
// (Stop, Start 4 ms later) right when its acquisition round's Create is in flight.
func scnRestartFollower(name string, k kfn, first Item) *Scenario {
	s := k(&Scenario{Name: name})
	s.Insts = insts("B", "A", "C")
	s.Script = starts("B", "A", "C")
	tDel := 2*s.H + 53*ms
	s.Script = append(s.Script, Item{At: tDel, Actor: "stopB", Do: "stopctx", Inst: "B", DeleteKey: true})
	// A's round: delete event at tDel, jitter 55 ms (default draw) -> Create at tDel+55ms
	first.At, first.Actor, first.Inst = tDel+55*ms+500*us, "lifeA", "A"
	s.Script = append(s.Script, first, Item{At: tDel + 59*ms, Actor: "lifeA", Do: "start", Inst: "A"})
	s.Horizon = tDel + s.TTL + 1500*ms
	s = s.faultFree()
	s.SplitApply = true
	s.RandMenu = nil
	// deviations only around the restart (the rest of the run is covered by the other scenarios)
	s.DevFrom, s.DevUntil = tDel, tDel+90*ms
	return s
}

// S-restart-late: A leads, is stopped without deleting its key and started again shortly
// before its old record expires (the first heartbeat of the new run comes after the
// expiry); B present.
func scnRestartLate(name string, k kfn, first Item) *Scenario {
	s := k(&Scenario{Name: name})
	s.Insts = insts("A", "B")
	s.Script = starts("A", "B")
	first.At, first.Actor, first.Inst = 1*s.H+31*ms, "lifeA", "A"
	tExp := 1*ms + s.H + s.TTL // last refresh at 1ms+H
	s.Script = append(s.Script, first, Item{At: tExp - 50*ms, Actor: "lifeA", Do: "start", Inst: "A"})
	s.Horizon = tExp + 1500*ms
	return s.faultFree()
}

var stopVariants = []Item{
	{Do: "stop"},
	{Do: "stopctx"},
	{Do: "stopctx", DeleteKey: true},
	{Do: "stopctx", DeleteKey: true, WaitForDemote: true},
	{Do: "stopctx", WaitForDemote: true, Timeout: 300 * ms},
	{Do: "stopctx", DeleteKey: true, CtxTimeout: 400 * ms},
}

func stopName(it Item) string {
	n := it.Do
	if it.DeleteKey {
		n += "+del"
	}
	if it.WaitForDemote {
		n += "+wait"
	}
	if it.Timeout > 0 {
		n += fmt.Sprintf("+to%v", it.Timeout)
	}
	if it.CtxTimeout > 0 {
		n += fmt.Sprintf("+ctx%v", it.CtxTimeout)
	}
	return n
}

// S-stop(variant): the stop call is placed by the explorer (MoveScript) at every
// choice point of a run in which A acquires, leads and B follows.
func scnStop(name string, k kfn, stop Item, ids ...string) *Scenario {
	s := k(&Scenario{Name: name})
	s.Insts = insts(ids...)
	s.Script = starts(ids...)
	stop.At, stop.Actor, stop.Inst = 2*s.H+37*ms, "stopA", "A"
	s.Script = append(s.Script, stop)
	s.Horizon = 2*s.H + 37*ms + 800*ms
	s = s.faultFree()
	s.SplitApply = true
	return s
}

func c02Plan(tier string) []PlanItem {
	d := 1
	if tier == "thorough" {
		d = 2
	}
	items := []PlanItem{
		{scnElect("elect2-K1", K1, "A", "B"), d + 1},
		{scnElect("elect3-K1", K1, "A", "B", "C"), d},
		{scnElect("elect2-K2", K2, "A", "B"), d},
		{scnFailoverDel("failover-del2-K1", K1, "A", "B"), d},
		{scnFailoverDel("failover-del3-K1", K1, "A", "B", "C"), d},
		{scnElect("elect2-K3", K3, "A", "B"), d},
		{scnFailoverDel("failover-del2-K3", K3, "A", "B"), d},
		{scnElect("elect4-K1", K1, "A", "B", "C", "D"), d},
	}
	for _, sv := range stopVariants {
		items = append(items, PlanItem{scnStop("stop/"+stopName(sv)+"-K1", K1, sv, "A", "B"), d})
		items = append(items, PlanItem{scnRestart("restart/"+stopName(sv)+"-K1", K1, sv), d})
	}
	items = append(items,
		PlanItem{scnCtxCancel("ctx-cancel-K1", K1, false), d},
		PlanItem{scnCtxCancel("ctx-cancel-then-stop-K1", K1, true), d},
		PlanItem{failingStop(scnStop("stop/stopctx+wait+to100ms", K1, Item{Do: "stopctx", WaitForDemote: true, Timeout: 100 * ms}, "A", "B")), d},
		PlanItem{failingStop(scnStop("stop/stopctx+expired-ctx", K1, Item{Do: "stopctx", CtxTimeout: -1}, "A", "B")), d},
		PlanItem{longDemote(scnStop("stop/stopctx+del+wait", K1, Item{Do: "stopctx", DeleteKey: true, WaitForDemote: true}, "A", "B", "C")), d},
		PlanItem{scnRestartLate("restart-late/stop-K1", K1, Item{Do: "stop"}), d},
		PlanItem{scnRestartLate("restart-late/stopctx-K1", K1, Item{Do: "stopctx"}), d},
		PlanItem{scnRestartFollower("restart-follower/stop-K1", K1, Item{Do: "stop"}), d + 1},
		PlanItem{scnRestart2("restart2/stop-then-stopdel-K1", K1, Item{Do: "stop"}), d},
		PlanItem{scnRestart2("restart2/stopctx-then-stopdel-K1", K1, Item{Do: "stopctx"}), d},
		PlanItem{dropAll(scnRestart2("restart2/stop-then-stopdel-K1-dropall", K1, Item{Do: "stop"})), d})
	return items
}

func init() {
	props["C02"] = &propDef{
		Level:  "exploration",
		Rule:   "every execution (choice sequence) with at most D deviations from the default environment of each listed scenario; non-trivial = some instance reported leadership; distinct = distinct observation-trace hash",
		Assume: []string{"reference store semantics (validated by C14)", "participants bounded to 3 instances", "deviation bound as reported per scenario"},
		Plan:   func(t string) []PlanItem { return append(c02Plan(t), finePlan("C02", t)...) },
	}
}

func dropAll(s *Scenario) *Scenario { s.DropAll = true; return s }
