package harness

import (
	"fmt"
	"strings"
	"time"
)

// C10: priority takeover preempts only strictly lower priority, and does so promptly.

type prioOpt struct {
	p  int
	to bool
}

var prioOpts = []prioOpt{{0, false}, {1, false}, {2, false}, {1, true}, {2, true}}

func (o prioOpt) String() string {
	if o.to {
		return fmt.Sprintf("%dT", o.p)
	}
	return fmt.Sprintf("%d", o.p)
}

func scnPrio(name string, opts []prioOpt, order []string, prompt bool) *Scenario {
	s := K1(&Scenario{Name: name})
	ids := []string{"A", "B", "C", "D"}[:len(opts)]
	for i, o := range opts {
		s.Insts = append(s.Insts, InstSpec{ID: ids[i], Priority: o.p, Takeover: o.to})
	}
	s.Script = starts(order...)
	s.Horizon = 6*s.H + 150*ms
	s = s.faultFree()
	s.RandMenu = nil
	if prompt {
		s.LatencyBound = s.H/10 - ms
		s.DelayMenu = []time.Duration{s.H/10 - 2*ms}
		s.AllowDup = false
		s.Tags = map[string]string{"c10": "prompt"}
		// the first starter leads alone for a heartbeat before the others arrive
		// ... and start 5ms before its second heartbeat, so that one latency deviation
		// (<= H/10) makes the first takeover attempt lose its compare-and-set to that
		// heartbeat and the retry path (watcher) has to deliver the promptness
		for i := range s.Script {
			if i > 0 {
				s.Script[i].At = 2*s.H - 5*ms + time.Duration(i)*2*ms
			}
			s.Script[i].Fixed = true
		}
		s.Horizon += 2 * s.H
	}
	return s
}

// scnPrioCrashFailover: X (priority 3) leads and crashes; its record lapses; A (priority
// 1) notices first through its periodic check and wins the vacant key, so that B (priority
// 2, takeover), an established follower that is not inside any acquisition round, sees a
// lower-priority leader appear and has to preempt it through its watcher.
func scnPrioCrashFailover(name string) *Scenario {
	s := K2(&Scenario{Name: name})
	s.Insts = []InstSpec{{ID: "X", Priority: 3}, {ID: "A", Priority: 1}, {ID: "B", Priority: 2, Takeover: true}}
	s.Script = []Item{
		{At: 1 * ms, Actor: "startX", Do: "start", Inst: "X", Fixed: true},
		{At: 3*ms + 7*us, Actor: "startA", Do: "start", Inst: "A", Fixed: true},
		{At: 1*s.H + 10*ms, Actor: "chaos", Do: "crash", Inst: "X", Fixed: true},
		{At: 3 * s.H, Actor: "startB", Do: "start", Inst: "B", Fixed: true},
	}
	s.Horizon = 1*ms + s.H + s.TTL + 500*ms + 8*s.H
	s = s.faultFree()
	s.RandMenu = nil
	s.LatencyBound = s.H/10 - ms
	s.DelayMenu = []time.Duration{s.H/10 - 2*ms}
	s.AllowDup = false
	s.Tags = map[string]string{"c10": "prompt"}
	s.DevFrom = 1*ms + s.H + s.TTL
	return s
}

// scnPrioCrashFailoverChain: as scnPrioCrashFailover with X at priority 4, plus C
// (priority 3, takeover) which starts 1 ms after the heartbeat notification that sends B
// (priority 2, takeover, a follower with a running watcher) into its takeover round: B's
// read of A's record, C's takeover and the notification of C's record to B's watcher
// overlap. Replies may arrive later than the store applied the operation.
func scnPrioCrashFailoverChain(name string) *Scenario {
	s := scnPrioCrashFailover(name)
	s.Insts = []InstSpec{{ID: "X", Priority: 4}, {ID: "A", Priority: 1}, {ID: "B", Priority: 2, Takeover: true}, {ID: "C", Priority: 3, Takeover: true}}
	// A's periodic check at 1503.007 ms finds the key gone, its Create lands 55 ms later
	// (1558.007 ms); A's first heartbeat, and with it B's takeover round, at 1758.007 ms
	s.Script = append(s.Script, Item{At: 1759*ms + 7*us, Actor: "startC", Do: "start", Inst: "C", Fixed: true})
	s.SplitApply = true
	s.Tags = map[string]string{}
	return s
}

// scnTakeoverAfterHealthStepdown: A (priority 2, takeover enabled, health checker) leads,
// steps down after three unhealthy results and is healthy again from then on; 100 ms later an
// outside party replaces A's lapsing record by one for Z with priority 1, which stays for a
// TTL. A follows a lower-priority record and has to take over within 3H.
func scnTakeoverAfterHealthStepdown(name string) *Scenario {
	s := K2(&Scenario{Name: name})
	s.Insts = []InstSpec{{ID: "A", Priority: 2, Takeover: true, Health: []string{"ok", "bad", "bad", "bad", "ok"}, MaxFail: 3}}
	s.Script = starts("A")
	z := `{"id":"Z","token":"tz","priority":1}`
	s.Script = append(s.Script,
		Item{At: 4*s.H + 100*ms + 3*us, Actor: "outside", Do: "delete", Fixed: true},
		Item{At: 4*s.H + 100*ms + 5*us, Actor: "outside", Do: "put", Payload: z, Fixed: true})
	s.Horizon = 4*s.H + 100*ms + s.TTL + 4*s.H
	s.Tags = map[string]string{"c10": "later-record"}
	s.LatencyBound = s.H / 10
	s.DelayMenu = []time.Duration{s.H / 10}
	s.DevFrom = 4 * s.H
	s.MaxSteps = 3000
	return s
}

func c10Plan(tier string) []PlanItem {
	var items []PlanItem
	d := 1
	if tier == "thorough" {
		d = 2
	}
	items = append(items, PlanItem{scnTakeoverAfterHealthStepdown("takeover-after-health-stepdown-K2"), d})
	orders2 := [][]string{{"A", "B"}, {"B", "A"}}
	for i, oa := range prioOpts {
		for j, ob := range prioOpts {
			for k, ord := range orders2 {
				_ = i
				_ = j
				name := fmt.Sprintf("prio2/%v-%v/order%d", oa, ob, k)
				dd := d
				if !oa.to && !ob.to {
					dd = 0 // nobody can preempt: one default run
				}
				items = append(items, PlanItem{scnPrio(name, []prioOpt{oa, ob}, ord, false), dd})
				if oa.to || ob.to {
					items = append(items, PlanItem{scnPrio(name+"/prompt", []prioOpt{oa, ob}, ord, true), dd})
				}
			}
		}
	}
	orders3 := [][]string{{"A", "B", "C"}, {"C", "B", "A"}, {"B", "C", "A"}}
	for _, oa := range prioOpts {
		for _, ob := range prioOpts {
			for _, oc := range prioOpts {
				if !oa.to && !ob.to && !oc.to {
					continue
				}
				for k, ord := range orders3 {
					name := fmt.Sprintf("prio3/%v-%v-%v/order%d", oa, ob, oc, k)
					dd := 0
					if tier == "thorough" {
						dd = 1
					} else if k == 0 && oa.p != ob.p {
						dd = 1
					}
					items = append(items, PlanItem{scnPrio(name, []prioOpt{oa, ob, oc}, ord, false), dd})
					pd := 0
					if tier == "thorough" || k == 0 {
						pd = 1
					}
					items = append(items, PlanItem{scnPrio(name+"/prompt", []prioOpt{oa, ob, oc}, ord, true), pd})
				}
			}
		}
	}
	items = append(items, PlanItem{scnPrioCrashFailover("prio3/crash-failover-3-1-2T/prompt"), d})
	items = append(items, PlanItem{scnPrioCrashFailoverChain("prio4/crash-failover-4-1-2T-3T/split"), d})
	if tier == "thorough" {
		items = append(items, PlanItem{scnPrio("prio4/1T-2T-1-2T/order0", []prioOpt{{1, true}, {2, true}, {1, false}, {2, true}}, []string{"A", "B", "C", "D"}, false), 1})
	}
	return items
}

func init() {
	oracles["C10"] = oracleC10
	props["C10"] = &propDef{
		Level:  "exploration",
		Rule:   "full lattice of assignments of (Priority in {0,1,2}, takeover off/on; takeover requires priority>0) to 2 and 3 instances x start orders; safety on every execution with <= D deviations under latencies < H/2 (interleavings of the takeover's Get/Update with the incumbent's heartbeat, watch delay/duplication, start order moved to every choice point); promptness on the '/prompt' scenarios (latencies <= H/10, a lower-priority leader already established) and for an instance that led, stepped down for health, recovered and then meets a lower-priority record; one 4-instance scenario in the thorough tier; non-trivial = a live record was replaced by another instance or a takeover-enabled instance ran next to a leader",
		Assume: []string{"5 instances are not run (cost); priorities limited to {0,1,2}", "promptness bound: 3H from the Start of the takeover-enabled instance plus the latency injected into its operations"},
		Plan:   c10Plan,
	}
}

func oracleC10(r *Result) ([]Violation, bool) {
	var s vset
	nontrivial := false
	// ---- safety: every replacement of a live foreign record
	for _, op := range r.Ops {
		if op.Kind != "Update" || op.Wrote == nil || !op.ReplacedLive {
			continue
		}
		cur := op.Replaced
		cp, cok := parsePayload(cur.Val)
		if cur.By == op.Inst && cok && cp.ID == op.Inst {
			continue // own refresh
		}
		nontrivial = true
		spec := r.Scn.inst(op.Inst)
		switch {
		case !spec.Takeover:
			s.add(op.TApply, "takeover-while-disabled/"+op.Label, "%s (takeover disabled, priority %d) replaced the live record rev %d of %s (stored priority %d) with %s", op.Inst, spec.Priority, cur.Rev, cur.By, cp.Prio, op.ID)
		case !cok:
			s.add(op.TApply, "takeover-of-unparsable-record", "%s replaced unparsable live record rev %d", op.Inst, cur.Rev)
		case spec.Priority <= cp.Prio:
			s.add(op.TApply, "takeover-not-strictly-higher/"+op.Label, "%s (priority %d) replaced the live record rev %d of %s whose stored priority is %d (old payload %s, new payload %s)", op.Inst, spec.Priority, cur.Rev, cur.By, cp.Prio, string(cur.Val), string(op.Val))
		}
	}
	if r.Scn.Tags["c10"] != "prompt" && r.Scn.Tags["c10"] != "later-record" {
		return s.vs, nontrivial
	}
	// ---- promptness
	H := r.Scn.H
	T := hbTimeout(H)
	pmax := 0
	for _, sp := range r.Scn.Insts {
		if sp.Takeover && sp.Priority > pmax {
			pmax = sp.Priority
		}
	}
	if pmax == 0 {
		return s.vs, nontrivial
	}
	prio := map[string]int{}
	for _, sp := range r.Scn.Insts {
		prio[sp.ID] = sp.Priority
	}
	// start times
	startT := map[string]time.Duration{}
	for _, e := range r.Trace {
		if e.K == "api.ret" && strings.HasPrefix(e.S, "start:") && e.S2 == "nil" {
			if _, ok := startT[e.I]; !ok {
				startT[e.I] = e.T
			}
		}
	}
	// record timeline helper
	recAt := func(t time.Duration) *Msg {
		var cur *Msg
		for _, m := range r.Hist {
			if m.Key == "g" && m.At <= t {
				cur = m
			}
		}
		if cur == nil || cur.Del || t-cur.At >= r.Scn.TTL {
			return nil
		}
		return cur
	}
	for _, sp := range r.Scn.Insts {
		if !sp.Takeover || sp.Priority != pmax {
			continue
		}
		ts, ok := startT[sp.ID]
		if !ok {
			continue
		}
		// t0: the first instant from its start on at which the instance runs next to a
		// live record of another instance with a lower stored priority
		qualifies := func(m *Msg) (payload, bool) {
			if m == nil || m.Del {
				return payload{}, false
			}
			cp, cok := parsePayload(m.Val)
			return cp, cok && cp.ID != sp.ID && cp.Prio < pmax
		}
		t0 := ts
		cp, ok0 := qualifies(recAt(ts))
		if !ok0 {
			for _, m := range r.Hist {
				if m.Key == "g" && m.At > ts {
					if c2, ok2 := qualifies(m); ok2 {
						cp, ok0, t0 = c2, true, m.At
					}
					if ok0 || r.Scn.Tags["c10"] != "later-record" {
						break // only the first change after the start: later ones are consequences
					}
					// (scenarios tagged later-record: the instance leads first and meets the
					// lower-priority record of somebody else in a later phase of the run)
				}
			}
		}
		if !ok0 {
			continue
		}
		ts = t0
		nontrivial = true
		var lam time.Duration
		for _, op := range r.Ops {
			if op.Inst == sp.ID && op.isStoreOp() && op.Answered && op.TIssue >= ts && op.TIssue <= ts+3*H {
				lam += op.TAnswer - op.TIssue
			}
		}
		limit := ts + 3*H + lam + ms
		if limit > r.EndT {
			continue
		}
		// by limit: the live record has stored priority >= pmax and its owner claims
		m2 := recAt(limit)
		okRec := false
		owner := ""
		if m2 != nil {
			if p2, ok2 := parsePayload(m2.Val); ok2 && p2.Prio >= pmax {
				okRec, owner = true, p2.ID
			}
		}
		if !okRec {
			s.add(limit, "takeover-not-prompt", "%s (priority %d, takeover enabled) runs since %v next to a leader with stored priority %d; by %v (3H + injected latency %v) the record is still not held at priority >= %d", sp.ID, pmax, ts, cp.Prio, limit, lam, pmax)
			continue
		}
		// owner claims, deposed leader demoted within the C03 bound of the replacement
		var tRepl time.Duration = -1
		for _, mm := range r.Hist {
			if mm.Key == "g" && !mm.Del && mm.At >= ts {
				if pp, ok3 := parsePayload(mm.Val); ok3 && pp.Prio >= pmax {
					tRepl = mm.At
					break
				}
			}
		}
		claimOK, deposedLate := false, ""
		for _, e := range r.Trace {
			if e.K != "q" {
				continue
			}
			for _, sn := range e.Snap {
				if sn.I == owner && sn.IsLeader && e.T <= limit {
					claimOK = true
				}
				if tRepl >= 0 && e.T > tRepl+H+2*T+ms && sn.IsLeader && prio[sn.I] < pmax {
					deposedLate = sn.I
				}
			}
		}
		if !claimOK {
			s.add(limit, "takeover-owner-not-claiming", "%s owns the record at priority %d by %v but does not report leadership", owner, pmax, limit)
		}
		if deposedLate != "" {
			s.add(r.EndT, "deposed-leader-still-claims", "%s (priority %d) still reports leadership more than H+2T after the record was taken over at %v", deposedLate, prio[deposedLate], tRepl)
		}
		// from then on leadership stays at the highest priority: at the horizon the only claimant has priority >= pmax
		for i := len(r.Trace) - 1; i >= 0; i-- {
			e := r.Trace[i]
			if e.K != "q" {
				continue
			}
			n := 0
			for _, sn := range e.Snap {
				if sn.IsLeader {
					n++
					if prio[sn.I] < pmax {
						s.add(e.T, "leadership-not-with-highest-priority", "at the end of the run (%v) %s (priority %d) reports leadership although a takeover-enabled instance of priority %d runs", e.T, sn.I, prio[sn.I], pmax)
					}
				}
			}
			if n == 0 {
				s.add(e.T, "no-leader-after-takeover", "at the end of the run (%v) nobody reports leadership", e.T)
			}
			break
		}
	}
	return s.vs, nontrivial
}
