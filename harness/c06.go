package harness

import (
	"fmt"
	"sort"
	"strings"
	"time"
)

// C06: a vacancy is filled within a bounded time while a healthy candidate exists.

func c06Plan(tier string) []PlanItem {
	d := 1
	if tier == "thorough" {
		d = 2
	}
	var items []PlanItem
	add := func(s *Scenario, dd int) { items = append(items, PlanItem{s, dd}) }
	for _, kk := range []struct {
		n string
		k kfn
	}{{"K1", K1}, {"K2", K2}} {
		for _, n := range []int{2, 3} {
			ids := []string{"A", "B", "C"}[:n]
			s := scnFailoverDel(fmt.Sprintf("failover-del%d-%s", n, kk.n), kk.k, ids...)
			s.AllowDrop = true
			add(s, d)
			s = scnFailoverDel(fmt.Sprintf("failover-del%d-%s-dropall", n, kk.n), kk.k, ids...)
			s.DropAll = true
			add(s, d)
			s = scnFailoverCrash(fmt.Sprintf("failover-crash%d-%s", n, kk.n), kk.k, ids...)
			add(s, d)
			s = scnFailoverCrash(fmt.Sprintf("failover-crash%d-%s-dropall", n, kk.n), kk.k, ids...)
			s.DropAll = true
			add(s, d)
		}
	}
	// long-lived records (the 500 ms periodic check and the 100 ms jitter must not scale
	// with the TTL): K3 (H 4 s, TTL 12 s) and K4 (H 20 s, TTL 60 s), all notifications lost
	for _, kk := range []struct {
		n string
		k kfn
	}{{"K3", K3}, {"K4", K4}} {
		s := scnFailoverDel(fmt.Sprintf("failover-del2-%s-dropall", kk.n), kk.k, "A", "B")
		s.DropAll = true
		s.Horizon = 2*s.H + 53*ms + 8*time.Second
		add(s, d-1)
	}
	// leader stops without deleting the key: vacancy by expiry
	s := scnStop("stop-nodelete-K1", K1, Item{Do: "stop"}, "A", "B")
	s.Horizon += s.TTL + 600*ms
	s.AllowDrop = true
	add(s, d)
	// permanent partition of the leader
	s = scnPartition("partition-forever-K1", K1, 0, "A", "B")
	s.AllowErr, s.AllowLost = nil, false
	s.OnlyInst = []string{"B"}
	add(s, d)
	// outside deletion
	s = scnElect("outside-delete-K1", K1, "A", "B")
	s.Script = append(s.Script, Item{At: 2*s.H + 53*ms, Actor: "outside", Do: "delete"})
	s.Horizon = 2*s.H + 53*ms + 1500*ms
	s.AllowDrop = true
	add(s, d)
	// transient failures of Watch/Get/Create on the candidate before the store recovers
	s = scnFailoverDel("failover-del2-K1-candidate-errors", K1, "A", "B")
	s.AllowErr = []string{"timeout"}
	s.OnlyInst = []string{"B"}
	s.AllowDrop = true
	s.LatencyBound = 0
	add(s, d+1)
	s = scnFailoverCrash("failover-crash2-K1-candidate-errors", K1, "A", "B")
	s.AllowErr = []string{"timeout"}
	s.OnlyInst = []string{"B"}
	s.LatencyBound = 0
	add(s, d)
	// the candidate is cut off for a short while around the vacancy (its requests fail
	// fast, several in a row) and then the store is reachable again: the bound applies
	// from the recovery
	for _, w := range []time.Duration{250 * ms, 700 * ms} {
		s = scnFailoverDel(fmt.Sprintf("failover-del2-K1-candidate-outage-%v", w), K1, "A", "B")
		tStop := 2*s.H + 53*ms
		s.Script = append(s.Script, Item{At: tStop - 40*ms, Actor: "chaos", Do: "partition", Inst: "B", Fixed: true},
			Item{At: tStop - 40*ms + w, Actor: "chaos", Do: "heal", Inst: "B", Fixed: true})
		s.PartitionTimeout = 30 * ms
		s.Horizon = tStop + w + 6500*ms
		s.LatencyBound = 0
		s.AllowDrop = true
		add(s, d)
	}
	// the only instance steps down through its health checker, recovers, and has to fill
	// the vacancy its own expired record leaves
	s = scnTerms("health-stepdown-then-vacancy-K1", K1, []string{"ok", "bad", "bad", "bad", "ok"}, 3, "A")
	add(s, d)
	// the candidate's run ended through its Start context (no Stop) and it was started
	// again while the leader still held the key
	s = scnFailoverDel("failover-del2-K1-candidate-ctx-restart", K1, "A", "B")
	s.Script = append(s.Script,
		Item{At: 1*s.H + 20*ms, Actor: "lifeB", Do: "cancelctx", Inst: "B", Fixed: true},
		Item{At: 1*s.H + 60*ms, Actor: "lifeB", Do: "start", Inst: "B", Fixed: true})
	s.AllowDrop = true
	add(s, d)
	// the candidate's watch lags: every notification is held back and may be delivered at
	// any later choice point, in order (a stale event about the old record landing inside an
	// acquisition round); vacancy by graceful stop and by crash
	s = scnFailoverDel("failover-del2-K1-lagging-watch", K1, "A", "B")
	s.HoldWatch = true
	s.LatencyBound = 0
	add(s, d)
	s = scnFailoverCrash("failover-crash2-K1-lagging-watch", K1, "A", "B")
	s.HoldWatch = true
	s.LatencyBound = 0
	add(s, d)
	// the candidate monitors its connection and went through a disconnect / reconnect as a
	// follower before the leader crashes (vacancy by expiry, nothing to notify) or shuts down
	for _, crash := range []bool{true, false} {
		var c *Scenario
		if crash {
			c = scnFailoverCrash("failover-crash2-K1-candidate-reconnected", K1, "A", "B")
		} else {
			c = scnFailoverDel("failover-del2-K1-candidate-reconnected-dropall", K1, "A", "B")
			c.DropAll = true
		}
		c.Insts[1].Monitored = true
		c.Script = append(c.Script,
			Item{At: 1*c.H + 21*ms, Actor: "connB", Do: "disconnect", Inst: "B", Fixed: true},
			Item{At: 1*c.H + 63*ms, Actor: "connB", Do: "reconnect", Inst: "B", Fixed: true})
		c.LatencyBound = 0
		add(c, d)
	}
	// the candidate's watch channel closes before the vacancy
	s = scnFailoverDel("failover-del2-K1-watch-closed", K1, "A", "B")
	s.Script = append(s.Script, Item{At: 1*s.H + 11*ms, Actor: "chaos", Do: "closewatch", Inst: "B"})
	s.AllowDrop = true
	add(s, d)
	return items
}

func init() {
	oracles["C06"] = oracleC06
	props["C06"] = &propDef{
		Level:  "fault_enumeration",
		Rule:   "the leader is removed (graceful stop with and without key deletion, crash, permanent partition, outside deletion) and, by moving that script item, at every choice point of the base run; per-event choice of dropping/delaying each watch notification (subsets of size <= D) plus the two presets deliver-all / drop-all; transient failures (<= D consecutive) of Watch/Get/Create on the candidates; N in {2,3}; K1, K2 (and K3, K4 = (20 s, 60 s) with all notifications lost). On each, every execution with <= D deviations; oracle: every vacancy instant from the store log is followed by a promotion of a healthy instance within 600ms plus the latencies the harness injected; non-trivial = a vacancy occurred while a healthy candidate existed",
		Assume: []string{"latencies injected into the candidates' operations are added to the bound (upper bound, so no false alarm)", "expiry instant = write time + TTL in the reference store"},
		Plan:   c06Plan,
	}
}

type span struct{ from, to time.Duration }

func oracleC06(r *Result) ([]Violation, bool) {
	var s vset
	ttl := r.Scn.TTL
	end := r.EndT
	// --- health intervals per instance
	type life struct {
		runs          []span        // running intervals: Start returned nil .. stop call / crash / cancelled Start context
		startOK       time.Duration // first successful Start return
		unhealthyFrom time.Duration // stop call / crash (first), or -1
		cuts          []span        // partition windows (to = -1: never healed)
	}
	lives := map[string]*life{}
	for _, sp := range r.Scn.Insts {
		g := sp.Group
		if g == "" || g == "g" {
			lives[sp.ID] = &life{startOK: -1, unhealthyFrom: -1}
		}
	}
	watchLost := map[string]bool{}
	for _, e := range r.Trace {
		l := lives[e.I]
		if l == nil {
			continue
		}
		switch {
		case e.K == "api.ret" && strings.HasPrefix(e.S, "start:") && e.S2 == "nil":
			if l.startOK < 0 {
				l.startOK = e.T
			}
			if n := len(l.runs); n == 0 || l.runs[n-1].to >= 0 {
				l.runs = append(l.runs, span{e.T, -1})
			}
		case e.K == "api.call" && (strings.HasPrefix(e.S, "stop") || strings.HasPrefix(e.S, "cancelctx")):
			// a stop call, or the end of the run through the context passed to Start
			if n := len(l.runs); n > 0 && l.runs[n-1].to < 0 {
				l.runs[n-1].to = e.T
			}
			if strings.HasPrefix(e.S, "stop") && l.unhealthyFrom < 0 {
				l.unhealthyFrom = e.T
			}
		case e.K == "crash" && l.unhealthyFrom < 0:
			l.unhealthyFrom = e.T
			if n := len(l.runs); n > 0 && l.runs[n-1].to < 0 {
				l.runs[n-1].to = e.T
			}
		case e.K == "partition":
			l.cuts = append(l.cuts, span{e.T, -1})
		case e.K == "heal":
			if n := len(l.cuts); n > 0 && l.cuts[n-1].to < 0 {
				l.cuts[n-1].to = e.T
			}
		case e.K == "closewatch":
			watchLost[e.I] = true
		}
	}
	for _, op := range r.Ops {
		if op.Kind == "Watch" && op.Answered && op.resErr != nil && op.Fault != "closed" {
			watchLost[op.Inst] = true
		}
	}
	// healthyThrough: started before a, not stopped / crashed up to b, and not cut off at
	// b; a partition that was healed inside [a,b] counts as a transient fault that ceased
	// at the heal time (returned as recovery).
	healthyThrough := func(id string, a, b time.Duration) (bool, time.Duration) {
		l := lives[id]
		if l == nil {
			return false, 0
		}
		// one run of the instance covers the whole interval (an instance that is started,
		// or started again, only after the vacancy began is not counted: conservative)
		covered := false
		for _, rn := range l.runs {
			if rn.from <= a && (rn.to < 0 || rn.to > b) {
				covered = true
			}
		}
		if !covered {
			return false, 0
		}
		var rec time.Duration
		for _, c := range l.cuts {
			if c.from > b {
				continue
			}
			if c.to < 0 || c.to > b {
				return false, 0 // still cut off at b
			}
			if c.to > a && c.to > rec {
				rec = c.to
			}
		}
		return true, rec
	}
	// --- promotion edges
	type edge struct {
		t    time.Duration
		inst string
	}
	var edges []edge
	last := map[string]bool{}
	firstProm := time.Duration(-1)
	for _, e := range r.Trace {
		if e.K == "gauge" {
			if e.B && !last[e.I] {
				edges = append(edges, edge{e.T, e.I})
				if firstProm < 0 {
					firstProm = e.T
				}
			}
			last[e.I] = e.B
		}
	}
	if firstProm < 0 {
		return nil, false
	}
	// --- vacancy instants of key g
	var vac []struct {
		t    time.Duration
		kind string
	}
	var msgs []*Msg
	for _, m := range r.Hist {
		if m.Key == "g" {
			msgs = append(msgs, m)
		}
	}
	expired := map[uint64]bool{}
	for _, e := range r.Trace {
		if e.K == "outside.expire" {
			vac = append(vac, struct {
				t    time.Duration
				kind string
			}{e.T, "expiry"})
		}
	}
	for i, m := range msgs {
		next := end + time.Hour
		if i+1 < len(msgs) {
			next = msgs[i+1].At
		}
		if m.Del {
			if i > 0 && !msgs[i-1].Del && !expired[msgs[i-1].Rev] {
				vac = append(vac, struct {
					t    time.Duration
					kind string
				}{m.At, "delete"})
			}
			continue
		}
		if m.At+ttl < next && m.At+ttl <= end {
			expired[m.Rev] = true
			vac = append(vac, struct {
				t    time.Duration
				kind string
			}{m.At + ttl, "expiry"})
		}
	}
	sort.Slice(vac, func(i, j int) bool { return vac[i].t < vac[j].t })
	nontrivial := false
	const base = 600 * time.Millisecond
	for _, v := range vac {
		if v.t < firstProm {
			continue
		}
		// the vacancy lasts until the next put by anybody
		tFill := time.Duration(-1)
		filler := ""
		for _, m := range msgs {
			if !m.Del && m.At >= v.t {
				if m.At == v.t {
					// same instant: only a put that comes after the vacancy in the log counts;
					// expiry instants have no log position: treat a put at that instant as the fill
				}
				tFill, filler = m.At, m.By
				break
			}
		}
		winEnd := end
		if tFill >= 0 {
			winEnd = tFill
		}
		var cands []string
		var healed time.Duration
		for id := range lives {
			if ok, rec := healthyThrough(id, v.t, winEnd); ok {
				cands = append(cands, id)
				if rec > healed {
					healed = rec
				}
			}
		}
		sort.Strings(cands)
		if len(cands) == 0 {
			continue
		}
		nontrivial = true
		isCand := map[string]bool{}
		for _, c := range cands {
			isCand[c] = true
		}
		// injected latencies and faults on the candidates inside the window
		var lam time.Duration
		tr := v.t
		if healed > tr {
			tr = healed
		}
		// while a candidate still claims leadership (a leader whose own record lapsed
		// because it is unhealthy or cut off from refreshing it, until its demotion) the
		// group is not without a claimant, and a claimant does not try to acquire: the
		// clock runs from the end of the last such claim inside the window
		claiming := map[string]bool{}
		for _, e := range r.Trace {
			if e.K != "gauge" || e.T > winEnd {
				continue
			}
			if isCand[e.I] {
				if claiming[e.I] && !e.B && e.T >= v.t && e.T > tr {
					tr = e.T
				}
				claiming[e.I] = e.B
			}
		}
		lostWatch := false
		for _, op := range r.Ops {
			if !isCand[op.Inst] || !op.isStoreOp() {
				continue
			}
			ta := op.TAnswer
			if !op.Answered || op.Fault == "closed" {
				ta = end
			}
			if ta < v.t || op.TIssue > winEnd {
				continue
			}
			lam += ta - op.TIssue
			if strings.HasPrefix(op.Fault, "err") || op.Fault == "lost" || op.Fault == "hang" {
				if ta > tr {
					tr = ta
				}
			}
		}
		for _, c := range cands {
			if watchLost[c] {
				lostWatch = true
			}
		}
		limit := tr + base + lam + ms
		cause := v.kind
		if lostWatch {
			cause += "/candidate-watch-lost"
		}
		if tFill < 0 {
			if limit <= end {
				s.add(end, "vacancy-never-filled/"+cause, "record vacant since %v (%s); healthy candidates %v; nobody acquired it by the end of the run at %v (bound %v)", v.t, v.kind, cands, end, limit)
			}
			continue
		}
		if tFill > limit {
			s.add(tFill, "vacancy-filled-late/"+cause, "record vacant since %v (%s) with healthy candidates %v; next acquisition (by %s) only at %v; bound %v (= %v + 600ms + injected latency %v)", v.t, v.kind, cands, filler, tFill, limit, tr, lam)
		}
	}
	return s.vs, nontrivial
}
