#!/usr/bin/env python3
"""Generate a `go build -overlay` file that, without touching /repo,
  * adds the shim packages  <module>/verifshim/{rt,sync,atomic,rand}
  * swaps the imports "sync", "sync/atomic", "math/rand/v2" of every non-test
    file of /repo/leader for those shims (line numbers are preserved).

usage: overlaygen.py --repo /repo --out DIR [--swap rand,sync,atomic]
Prints the path of the overlay json.
"""
import argparse, json, os, re, sys

MOD = "github.com/ali-assar/NATS-Leader-Election"
SWAPS = {
    "sync": ('"sync"', 'sync "%s/verifshim/sync"' % MOD),
    "atomic": ('"sync/atomic"', 'atomic "%s/verifshim/atomic"' % MOD),
    "rand": ('"math/rand/v2"', 'rand "%s/verifshim/rand"' % MOD),
}


def rewrite(src, swaps):
    """rewrite import specs only inside import declarations"""
    out, changed = [], False
    in_block = False
    for line in src.split("\n"):
        s = line.strip()
        if not in_block:
            if re.match(r"^import\s*\($", s):
                in_block = True
                out.append(line)
                continue
            m = re.match(r'^import\s+("[^"]+")\s*$', s)
            if m:
                for k in swaps:
                    old, new = SWAPS[k]
                    if m.group(1) == old:
                        line = "import " + new
                        changed = True
            out.append(line)
            # stop scanning after first non-import top-level decl
            continue
        else:
            if s == ")":
                in_block = False
                out.append(line)
                continue
            for k in swaps:
                old, new = SWAPS[k]
                if s == old:
                    line = line.replace(old, new)
                    changed = True
            out.append(line)
    return "\n".join(out), changed


def main():
    ap = argparse.ArgumentParser()
    ap.add_argument("--repo", default="/repo")
    ap.add_argument("--out", required=True)
    ap.add_argument("--swap", default="rand,sync,atomic")
    ap.add_argument("--src", default="", help="read leader/*.go from this tree instead of --repo (the overlay still targets --repo's paths); used to check a scratch worktree without touching /repo")
    ap.add_argument("--shim", default=os.path.join(os.path.dirname(os.path.abspath(__file__)), "..", "shim"))
    a = ap.parse_args()
    swaps = [s for s in a.swap.split(",") if s]
    shim = os.path.abspath(a.shim)
    a.out = os.path.abspath(a.out)
    os.makedirs(a.out, exist_ok=True)
    replace = {}
    for pkg in ("rt", "sync", "atomic", "rand"):
        d = os.path.join(shim, pkg)
        for f in sorted(os.listdir(d)):
            if f.endswith(".go"):
                replace[os.path.join(a.repo, "verifshim", pkg, f)] = os.path.join(d, f)
    ldir = os.path.join(a.repo, "leader")
    sdir = os.path.join(a.src, "leader") if a.src else ldir
    n = 0
    names = set(os.listdir(ldir)) | set(os.listdir(sdir))
    for f in sorted(names):
        if not f.endswith(".go") or f.endswith("_test.go"):
            continue
        p = os.path.join(ldir, f)
        sp = os.path.join(sdir, f)
        if not os.path.exists(sp):
            replace[p] = ""  # deleted in the source tree
            continue
        src = open(sp, encoding="utf-8").read()
        new, changed = rewrite(src, swaps)
        if sdir != ldir and (not os.path.exists(p) or open(p, encoding="utf-8").read() != src):
            changed = True
        if changed:
            q = os.path.join(a.out, "leader__" + f)
            with open(q, "w", encoding="utf-8") as fh:
                fh.write(new)
            replace[p] = q
            n += 1
    path = os.path.join(a.out, "overlay.json")
    with open(path, "w") as fh:
        json.dump({"Replace": replace}, fh, indent=1)
    print(path)
    sys.stderr.write("overlaygen: %d leader files rewritten, swaps=%s\n" % (n, swaps))


if __name__ == "__main__":
    main()
