#!/bin/bash
# Re-runs every kept seeded change against its property's quick check (and thorough if quick is
# silent; SEED_THOROUGH=0 to skip, SEED_BUDGET=6m) without touching /repo. One line per run.
cd /verif
for d in seeded/C*/; do
  id=$(basename $d)
  prop=$(python3 -c "import json;print(json.load(open('$d/meta.json')).get('detected_by',{}).get('check','${id%%-*}'))" 2>/dev/null || echo ${id%%-*})
  tools/seedrun.sh $id $prop 2>&1 | grep "rc="
done
