#!/bin/bash
# Re-run every kept seeded change against its property's quick check (and thorough if
# quick is silent). /repo is restored after each. Prints one line per seed.
cd /verif
for d in seeded/C*/; do
  id=$(basename $d); prop=${id%%-*}
  SEED_THOROUGH=${SEED_THOROUGH:-1} SEED_BUDGET=${SEED_BUDGET:-6m} tools/seedtest.sh /verif/$d/patch.diff $prop 2>&1 | grep "rc=" | sed "s/^/$id: /"
done
