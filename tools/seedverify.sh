#!/bin/bash
# usage: seedverify.sh <worktree>   -- confirm a sub-agent's claims in its scratch worktree:
#  (a) suite passes with the change, (b) demo fails with the change, (c) demo passes without.
set -u
W="$1"; export GOFLAGS=-mod=mod GOPROXY=off; unset GOTOOLCHAIN GOSUMDB
cd "$W" || exit 2
[ -f SEED/patch.diff ] || { echo "no SEED/patch.diff"; exit 2; }
DEMO=leader/seed_demo_test.go
[ -f $DEMO ] || cp SEED/seed_demo_test.go.txt $DEMO
git checkout -q -- leader internal 2>/dev/null
git apply SEED/patch.diff || { echo "PATCH DOES NOT APPLY"; exit 2; }
mv $DEMO /tmp/$(basename $W)_demo.go
echo "== (a) suite with change (demo removed)"
go test -vet=off -count=1 -skip TestSeedDemo ./... 2>&1 | tail -3
A=${PIPESTATUS[0]}
mv /tmp/$(basename $W)_demo.go $DEMO
TESTS=$(grep -o '^func Test[A-Za-z0-9_]*' $DEMO | sed 's/func //' | paste -sd'|')
echo "== (b) demo with change: $TESTS"
go test -vet=off -count=1 -run "^($TESTS)\$" ./leader/ 2>&1 | tail -4
B=${PIPESTATUS[0]}
git checkout -q -- leader internal
git status --short | grep -v SEED | head -3
echo "== (c) demo without change"
go test -vet=off -count=1 -run "^($TESTS)\$" ./leader/ 2>&1 | tail -3
C=${PIPESTATUS[0]}
git apply SEED/patch.diff
echo "RESULT suite_with_change=$A demo_with_change=$B demo_without_change=$C  (want 0, non-zero, 0)"
