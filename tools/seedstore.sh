#!/bin/bash
# usage: seedstore.sh <worktree> <seed-id> [race]
# Re-bases a sub-agent's change onto /repo's HEAD inside its scratch worktree, re-confirms
# (a) suite passes with the change, (b) demo fails with it, (c) demo passes without it,
# and stores patch (regenerated against HEAD), demo and notes under /verif/seeded/<seed-id>/.
set -u
W="$1"; ID="$2"; RACE="${3:-}"
export GOFLAGS=-mod=mod GOPROXY=off; unset GOTOOLCHAIN GOSUMDB
HEAD=$(git -C /repo rev-parse HEAD)
cd "$W" || exit 2
git checkout -q -- . 2>/dev/null; rm -f leader/seed_demo_test.go
git checkout -q --detach $HEAD || exit 2
git apply SEED/patch.diff 2>/dev/null || { git apply -3 SEED/patch.diff >/dev/null 2>&1 && git reset -q; } || { echo "$ID: PATCH DOES NOT APPLY TO HEAD"; exit 2; }
git diff -- leader internal > SEED/patch.head.diff
echo "== (a) suite with change"
go test -vet=off -count=1 ./... 2>&1 | tail -2
A=${PIPESTATUS[0]}
cp SEED/seed_demo_test.go.txt leader/seed_demo_test.go
FLAGS="-vet=off -count=1"; [ -n "$RACE" ] && FLAGS="-race $FLAGS"
go test $FLAGS -run 'TestSeedDemo' ./leader/ >/tmp/seedstore_$ID.b 2>&1; B=$?
git apply -R SEED/patch.head.diff
go test $FLAGS -run 'TestSeedDemo' ./leader/ >/tmp/seedstore_$ID.c 2>&1; C=$?
git apply SEED/patch.head.diff
RES="suite_with_change=$A demo_with_change=$B demo_without_change=$C (want 0, non-zero, 0) on $HEAD"
echo "$ID: $RES"
if [ $A -eq 0 ] && [ $B -ne 0 ] && [ $C -eq 0 ]; then
  D=/verif/seeded/$ID; mkdir -p $D
  cp SEED/patch.head.diff $D/patch.diff
  cp SEED/seed_demo_test.go.txt $D/seed_demo_test.go.txt
  cp SEED/notes.md $D/agent_notes.md
  echo "$RES" > $D/confirmed.txt
  echo "$ID: stored"
fi
rm -f /tmp/seedstore_$ID.b /tmp/seedstore_$ID.c
