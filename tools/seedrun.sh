#!/bin/bash
# usage: seedrun.sh <seed-id> [PROP...]   (default PROP = the seed's property)
# Applies /verif/seeded/<seed-id>/patch.diff in a throw-away worktree of /repo's HEAD (outside
# /repo and /verif) and runs the checks against that tree through the overlay (VERIF_SRC):
# /repo and the committed evidence are not touched.
set -u
ID="$1"; shift
[ $# -gt 0 ] || set -- "${ID%%-*}"
W=$(mktemp -d /tmp/seedrun.XXXXXX); rmdir $W
git -C /repo worktree add -q --detach $W HEAD || exit 2
trap 'git -C /repo worktree remove --force $W; git -C /repo worktree prune; rm -rf /verif/.build/alt-$(echo "$W" | tr "/" "_")' EXIT
git -C $W apply /verif/seeded/$ID/patch.diff || { echo "$ID: rc=2 patch does not apply to HEAD"; exit 2; }
/verif/tools/seedtest2.sh $W "$@" | sed "s/^/$ID: /"
