#!/bin/bash
# usage: seedtest.sh <patch.diff> <PROP> [PROP...]  -- apply a seeded change to /repo, run the
# checks (quick, then thorough if quick is silent), restore /repo.
set -u
P="$1"; shift
cd /repo || exit 2
[ -z "$(git status --porcelain)" ] || { echo "/repo not clean"; exit 2; }
# the checks rewrite /verif/evidence on every run: keep the clean-tree evidence
rm -rf /verif/.build/evidence.keep; cp -r /verif/evidence /verif/.build/evidence.keep
trap 'git -C /repo reset -q --hard HEAD ; git -C /repo status --porcelain; rm -rf /verif/evidence; mv /verif/.build/evidence.keep /verif/evidence' EXIT
git apply "$P" 2>/dev/null || git apply -3 "$P" >/dev/null 2>&1 || { echo "$P: rc=2 patch does not apply to HEAD"; exit 2; }
for prop in "$@"; do
  out=$(cd /verif && ./check $prop --tier quick 2>&1); rc=$?
  sigs=$(echo "$out" | grep "signature:" | sed 's/.*signature: //' | paste -sd';')
  echo "$prop quick rc=$rc sigs=[$sigs]"
  if [ $rc -eq 0 ] && [ "${SEED_THOROUGH:-1}" = 1 ]; then
    out=$(cd /verif && ./check $prop --tier thorough --budget ${SEED_BUDGET:-6m} 2>&1); rc=$?
    sigs=$(echo "$out" | grep "signature:" | sed 's/.*signature: //' | paste -sd';')
    echo "$prop thorough rc=$rc sigs=[$sigs]"
  fi
  [ $rc -eq 2 ] && echo "$out" | tail -5
done
