#!/bin/bash
# usage: seedtest2.sh <tree-with-the-change> <PROP> [PROP...]
# Runs the checks against leader/*.go of another tree (a scratch worktree holding a candidate
# change) through the build overlay: /repo and /verif/evidence are not touched, so this can run
# while other checks use /repo. Quick tier, then thorough if quick is silent (SEED_THOROUGH=0 to skip).
set -u
SRC="$1"; shift
for prop in "$@"; do
  out=$(cd /verif && VERIF_SRC="$SRC" ./check $prop --tier quick 2>&1); rc=$?
  sigs=$(echo "$out" | grep "signature:" | sed 's/.*signature: //' | paste -sd';')
  echo "$prop quick rc=$rc sigs=[$sigs]"
  if [ $rc -eq 0 ] && [ "${SEED_THOROUGH:-1}" = 1 ]; then
    out=$(cd /verif && VERIF_SRC="$SRC" ./check $prop --tier thorough --budget ${SEED_BUDGET:-6m} 2>&1); rc=$?
    sigs=$(echo "$out" | grep "signature:" | sed 's/.*signature: //' | paste -sd';')
    echo "$prop thorough rc=$rc sigs=[$sigs]"
  fi
  [ $rc -eq 2 ] && echo "$out" | tail -5
done
