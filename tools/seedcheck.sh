#!/bin/bash
# Verifies, in a throw-away worktree of /repo's HEAD (outside /repo and /verif), that every kept
# seeded change still applies and compiles; with "demo" also that its demonstration fails with
# the change and passes without it. Run after every new commit in /repo.
set -u
export GOFLAGS=-mod=mod GOPROXY=off; unset GOTOOLCHAIN GOSUMDB
W=$(mktemp -d /tmp/seedcheck.XXXXXX); rmdir $W
git -C /repo worktree add -q --detach $W HEAD || exit 2
trap 'git -C /repo worktree remove --force $W; git -C /repo worktree prune' EXIT
cd $W; rc=0
for d in /verif/seeded/C*/; do
  id=$(basename $d)
  git apply $d/patch.diff 2>/dev/null || { echo "$id: DOES NOT APPLY"; rc=1; git checkout -q -- .; continue; }
  go build ./leader/ 2>/dev/null || { echo "$id: DOES NOT BUILD"; rc=1; git checkout -q -- .; continue; }
  if [ "${1:-}" = demo ]; then
    R=""; case $id in C20*) R="-race";; esac
    cp $d/seed_demo_test.go.txt leader/seed_demo_test.go
    go test $R -vet=off -count=1 -run 'TestSeedDemo' ./leader/ >/dev/null 2>&1; B=$?
    git checkout -q -- .
    go test $R -vet=off -count=1 -run 'TestSeedDemo' ./leader/ >/dev/null 2>&1; C=$?
    rm -f leader/seed_demo_test.go
    if [ $B -eq 0 ] || [ $C -ne 0 ]; then echo "$id: demo_with_change=$B demo_without_change=$C (want non-zero, 0)"; rc=1; fi
  fi
  git checkout -q -- .
done
[ $rc -eq 0 ] && echo "all $(ls -d /verif/seeded/C*/ | wc -l) seeded changes apply and build${1:+, demonstrations behave}"
exit $rc
