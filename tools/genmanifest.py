#!/usr/bin/env python3
"""Regenerates /verif/MANIFEST.json from the table below (kept in one place so that
the manifest is always valid)."""
import json, os
V = os.path.dirname(os.path.dirname(os.path.abspath(__file__)))
props = [json.loads(l)["id"] for l in open(os.path.join(V, "properties.jsonl"))]

ENGINE = "mcx"
EXPL = "stateless deviation-bounded exploration of the real election code in synctest bubbles (virtual time) against a gated reference store; oracle on the full observation trace of every execution"
NOTE = "Bounded: 2-4 instances, <=2 groups, deviation bound d per scenario as reported in the evidence (quick d=1..2, thorough d=2..3); reference store semantics validated against the embedded nats-server by C14; goroutine interleavings between two store/timer seams only in fine-mode windows (scheduling points at every sync/atomic operation and user callback, <=2 preemptions quick / <=3 thorough); two library goroutines that become runnable at the same virtual instant run in an uncontrolled order (scenarios avoid such coincidences; a violation must reproduce 5/5 on replay)."
CHECKS = {
 "C01": dict(cat="exploration", tech=EXPL, ref="DESIGN §5 C01", note=NOTE,
   text="Every applied mutation in the complete, caller-tagged store log of every explored execution (fault-free, crash, partition, error/lost-ack, preemption, two-group and stop/restart scenarios) is classified against the version it replaced: create over no live record, owner refresh with identical id/token, revision-checked takeover by a strictly higher-priority takeover-enabled instance, or owner's delete inside its own StopWithContext; anything else, or any op on another group's key, is a violation."),
 "C02": dict(cat="exploration", tech=EXPL, ref="DESIGN §5 C02", note=NOTE,
   text="Every execution with <= d deviations (store latencies up to H/2-1ms, split application/answer, watch delay/duplication, jitter extremes, start/stop/restart calls moved to every choice point) of the fault-free scenarios is run on the real code; at every leadership-flag change (sampled inside the is-leader gauge callback), callback and quiescent point: at most one claimant per group, and each claim is backed by the live record (id and current token)."),
 "C05": dict(cat="exploration", tech=EXPL, ref="DESIGN §5 C05", note=NOTE,
   text="Over every record version written in every explored execution (multi-term scenarios: health demotion and re-election, restart, failover, preemption, partitions): acquisition writes carry a token never seen before in any version; refreshes republish the replaced version's id and token; the token given to OnPromote is the token of an acquisition write of that instance; a leader's Token()/Status().Token equal the token in its own live record at every quiescent point."),
 "C07": dict(cat="exploration", tech=EXPL, ref="DESIGN §5 C07", note=NOTE,
   text="In every explored execution of the fault-free scenarios (latencies < H/2, watch delay/duplication/late delivery, all jitter extremes, other instances starting/stopping/losing) an instance that becomes leader has no true->false edge, no OnDemote and no token change until its own stop call, and the record never lapses or changes owner under it."),
 "C08": dict(cat="exploration", tech=EXPL, ref="DESIGN §5 C08", note=NOTE,
   text="Callback log of every explored execution (all scenario families incl. partitions, errors, lost acks, health demotion, preemption, stops): per instance strict P D P D ... alternation starting with P, P carries a token that instance wrote, and at every quiescent point outside a stop call IsLeader() <=> #P-#D==1."),
 "C09": dict(cat="exploration", tech=EXPL, ref="DESIGN §5 C09", note=NOTE,
   text="The stop call (Stop and five StopWithContext option combinations, plus stop-then-start) is placed by the explorer at every choice point of the base runs, including between issue/application/answer of each store op; after it returns nil: never leader again, no OnPromote, no store op issued, State STOPPED, duration within 5s+callback / the time-out, record not a live record of the caller when DeleteKey was set and it led, no stuck or leftover library goroutine, no panic (worker death), Status() never blocks."),
 "C18": dict(cat="exploration", tech=EXPL, ref="DESIGN §5 C18", note=NOTE,
   text="Status() of every instance at every quiescent point of every explored execution: IsLeader <=> State==LEADER, leader's LeaderID/Token/Revision equal own id / term token / revision of its latest acknowledged write, documented states only, STOPPED after a returned stop, is-leader gauge equals IsLeader(), transition stream forms a chain."),
 "C19": dict(cat="exploration", tech=EXPL, ref="DESIGN §5 C19", note=NOTE,
   text="A promotion callback that blocks on its context records when it is cancelled; at every quiescent point of every explored execution (every cause of term end the scenarios reach): context done <=> the term has ended (instance not leader or token changed)."),
 "C15": dict(cat="exploration", tech="exhaustive enumeration of an error-term grammar (all leaves x all wrapper nestings to depth 3) plus live error values from an embedded nats-server through the real adapter", ref="DESIGN §5 C15",
   note="Finite alphabet: 12 package sentinels, context errors, the library's error types, nats.go exported/API errors, a word alphabet containing every pattern of error.go in both cases; 5 wrappers nested to depth 3. Byte strings outside the alphabet are not decided.",
   text="For every term: never both classes, nil neither, every non-nil exactly one; for every term with exactly one classified leaf under neutral wrappers the class the statement fixes (context/TimeoutError/nats timeout, no-responders, closed => transient; config, permission, bucket, NATS conflict errors => permanent), including values captured live (stale Update, Create on live key, request time-out with the server down, closed connection)."),
 "C16": dict(cat="exploration", tech="exhaustive enumeration of the configuration lattice against a reference predicate written from the statement", ref="DESIGN §5 C16",
   note="Lattice: every duration at, 1ns below and above each threshold, 0, negative, 1 year; ints around 0; strings empty/non-empty; full product (3.7e5 configurations). Values between lattice points are not decided.",
   text="NewElection succeeds iff the statement's predicate holds; a rejection is a *ValidationError naming an offending field, and the provider is not contacted (call-counting provider)."),
 "C17": dict(cat="exploration", tech="exhaustive enumeration (backoff lattice, all retry outcome/cancellation sequences and breaker sequences in virtual-time bubbles against reference models) + deviation-bounded exploration of election scenarios for the acquisition rounds", ref="DESIGN §5 C17",
   note="Backoff lattice restricted to Jitter in [0,1], Multiplier>=1, MaxBackoff<=100y; retry sequences <=5, breaker sequences of length 6; rounds observed in 2-3 instance scenarios with <= d deviations. The random source is owned through the overlay shim.",
   text="CalculateBackoff within the jitter band and non-negative for all lattice points and attempts up to MaxInt; RetryWithBackoff's invocation instants and result equal the reference timeline for every outcome sequence, MaxAttempts, breaker and cancellation point; CircuitBreaker equals the reference FSM on every sequence; a context cancelled inside the k-th invocation never leads to another invocation (zero-backoff cases, where Go resolves the two ready select cases at random, are executed 64 times each); every acquisition round in every explored execution waits exactly 10ms+r*90ms, makes <=4 attempts, and waits the computed backoff."),
 "C12": dict(cat="model_checking", tech="reference-model conformance: every health-result sequence up to a length bound executed on the real election in virtual time and compared tick by tick with a reference counter", ref="DESIGN §5 C12",
   note="Sequences over {ok,bad,slow} of length <=6 (quick) / <=7 (thorough) x thresholds {0,1,2,3,4}; one instance; K1 timing; a slow check returns false at its deadline. Besides the fault-free runs, sequences up to length 4/5 are run with one transient heartbeat-refresh failure injected at every refresh in turn (d=1) and with a Stop/Start restart after every tick.",
   text="The reference model (consecutive-unhealthy counter of the current term) and the implementation agree on every tick of every sequence: demotion by the health mechanism exactly when the count reaches the threshold, never earlier, OnDemote ran, each Check context expires within 100ms, the instance continues as follower and is re-elected; counts restart on healthy results and on new terms (runs continue over up to three terms)."),
 "C03": dict(cat="fault_enumeration", tech="exhaustive enumeration of fault position x fault kind x timing configuration, each combined with deviation-bounded exploration of latencies/placement on the real code in virtual time; exact virtual-time oracle", ref="DESIGN §5 C03",
   note="Fault begins at heartbeat attempt 1..5; nine fault kinds; K1,K2,K3 (K3 exercises the H/2 time-out); d<=1 quick (K3: default schedule), d<=2 thorough; single leader; the reference store returns the real NATS error values so the string classification is exercised as in production.",
   text="For record replaced/deleted/expired: the instance has stopped claiming and OnDemote has run by the completion (answer or time-out) of the first refresh the store evaluates after the change, and within H+2T; for unreachable-store kinds (three NATS error values, hang, lost acknowledgements, partition): by the completion of the third consecutive failed attempt and within 3H+3T of the start of the last successful refresh. Times are exact virtual times."),
 "C04": dict(cat="exploration", tech="finite product of payload alphabet x caller state x method x context, each combined with deviation-bounded exploration of the order of the validation read against racing writes on the real code", ref="DESIGN §5 C04",
   note="50 record shapes (every branch of validateToken), 4 caller states, 2 methods, 4 context variants; d<=1 (quick: on the leader/background+deadline cases, default schedule elsewhere; thorough: everywhere, d=2 on the racing cases). The harness applies the read itself, so the record at its linearisation point is known exactly. Byte strings outside the alphabet are not decided.",
   text="Whenever ValidateToken / ValidateTokenOrDemote returns true, a validation read applied during the call saw a live record whose JSON id is the caller and whose token is the token the caller held at the call; read errors, hangs past the deadline, cancelled contexts and every malformed shape give false; after a false ValidateTokenOrDemote the instance no longer leads and OnDemote has run if it led at the call; no payload crashes, spins or wedges the instance."),
 "C06": dict(cat="fault_enumeration", tech="enumeration of leader-removal points (script item moved to every choice point), watch-event loss subsets and transient candidate faults, on the real code in virtual time; exact vacancy instants from the reference store log", ref="DESIGN §5 C06",
   note="N in {2,3}; K1,K2; removal by stop(+/-DeleteKey), crash, permanent partition, outside delete; presets deliver-all/drop-all plus per-event drops up to d; candidate Watch/Get/Create failures up to d consecutive; the bound is 600ms plus latencies actually injected into the candidates' operations (an upper bound).",
   text="Every vacancy instant (tombstone applied or write time + TTL) during which a started, non-stopped, connected instance exists is followed by an acquisition within 600ms + injected latency, also when no watch notification is delivered, after Watch/Get/Create failures, after a temporary outage of the candidate (bound restarts at the recovery) and after the candidate's watch was lost; a run never ends with an older vacancy."),
 "C10": dict(cat="exploration", tech="exhaustive enumeration of the priority/flag assignment lattice x start orders, each combined with deviation-bounded exploration of the takeover's Get/Update against the incumbent's heartbeat on the real code", ref="DESIGN §5 C10",
   note="Priorities {0,1,2}, takeover on/off (valid combinations), 2 and 3 instances (one 4-instance scenario in the thorough tier; 5 instances not run), 2-3 start orders; safety under latencies < H/2 with d<=1 (quick) / 2 (thorough); promptness under latencies <= H/10 with the challenger starting 5ms before the incumbent's heartbeat.",
   text="Every replacement of a live foreign record in every explored execution is by a takeover-enabled instance whose priority is strictly greater than the priority stored in the replaced record; in the promptness scenarios the highest-priority takeover-enabled instance holds the record and claims within 3H (+ injected latency) of its Start, the deposed leader stops claiming within H+2T, and at the end of the run the only claimant has the highest priority."),
 "C13": dict(cat="exploration", tech="finite product of payload alphabet x role x outside action, the action placed at every choice point by deviation-bounded exploration on the real code; crash/spin/stuck/goroutine guards plus store-log oracle", ref="DESIGN §5 C13",
   note="50 record shapes; roles: plain follower+leader, takeover candidate with equal / higher priority; actions put, delete, put-then-delete; d<=1; 1 MiB values only on the default schedule in the quick tier. Unbounded recursion is observed through its zero-time operation storm (spin guard: >64 store ops of one instance at one virtual instant).",
   text="No explored execution kills the worker, storms the store without virtual time advancing, leaves a stuck goroutine, blocks Status() or grows goroutines without bound; every replacement of a live foreign record is a legitimate preemption of a parseable record; every promotion follows an acquisition write of the claimer; a leader whose record was rewritten or deleted is demoted within H+2T."),
 "C14": dict(cat="model_checking", tech="exhaustive enumeration of operation sequences up to a depth, each replayed through the real adapter on an embedded nats-server in lock-step with the reference store (model conformance)", ref="DESIGN §5 C14",
   note="Alphabet of 11 operations (three value shapes, four revision choices) up to depth 4 (quick) / 5 (thorough); expiry sequences with one WaitExpiry up to depth 3/4 (real time, MaxAge 150ms; an expiry the server has not performed in time makes the sequence inconclusive, never an alarm); watchers at every prefix position of all sequences up to depth 3/4, two consumer styles; buckets with History 64 so that the server never drops a superseded revision before delivering it; one writer per bucket.",
   text="Adapter and reference model agree on outcome, revision, value and error text at every step of every sequence; Create succeeds exactly without a live value (also after delete/expiry), Update exactly on the latest revision, revisions strictly increase; every watcher receives exactly the model's event list (initial value, nil marker, each later change once, in order, deletions empty) through one stable channel also when Updates() is called before every receive, and no adapter goroutine survives Stop - also for a consumer that obtained the channel, never read and stopped. This is what binds the store used by all other checks to the real server."),
 "C11": dict(cat="fault_enumeration", tech="exhaustive enumeration of connection-notification sequences x grace x ownership change x partition x stop, each with deviation-bounded placement of every notification on the real code in virtual time (serial dispatcher as in nats.go); exact virtual-time oracle", ref="DESIGN §5 C11",
   note="Sequences over {disconnect, reconnect, closed} of length <=3 (quick) / <=4 (thorough); grace 2H+7ms, 3H+1ms and the 5s default (short sequences); d<=1; one monitored instance; the usurper is an outside writer. Interleavings of the dispatcher, the timer goroutine and the verification goroutine inside one virtual instant are only explored in fine-mode windows.",
   text="With a fault-free store a timer-step demotion happens only at exactly latest-disconnect + grace and only if no reconnect followed; when the grace period of a leading, still disconnected (or closed) instance elapses it is demoted at that instant and OnDemote runs; after a reconnect the instance keeps leadership iff the verification reads (applied by the harness) show its id and token, and OnDemote runs otherwise; no sequence blocks Status(), leaves a stuck goroutine, spins or kills the worker."),
 "C20": dict(cat="exploration", tech="exhaustive enumeration of the program space (sets of concurrent API callers x lifecycle phase x latency seed), every program executed free-running under the Go race detector in virtual time", ref="DESIGN §5 C20",
   note="The deciding step per execution is dynamic happens-before race detection, not enumeration of memory-model interleavings (the property itself is phrased over race-detector runs of the scenario generator). Quick: all pairs of single calls, every call against five lifecycle sequences, triples over a reduced alphabet, 5 phases, 3 seeds; thorough: all pairs of two-call sequences and all triples, 5 seeds. The harness store's mutex adds happens-before edges that may hide a race; connection callbacks are dispatched serially as nats.go does. Two known findings (e.ctx) are listed in known_findings.json by field and writing function.",
   text="No data race is reported on any explored program other than the two recorded races on the election context field; reports are normalised to the shared field (read from the source line of the writing site) and the writing function, so a race on another field or from another writer is a new violation."),
}
NA_DEFAULT = "check not built yet in this round (planned in DESIGN.md §9a); not claimed until it runs alarm-free"

checks = []
for p in props:
    if p in CHECKS:
        c = CHECKS[p]
        checks.append({
            "property_id": p,
            "quick_cmd": "./check %s --tier quick" % p,
            "thorough_cmd": "./check %s --tier thorough" % p,
            "evidence_file": "/verif/evidence/%s.json" % p,
            "replay_cmd_template": "./check %s --replay {path}" % p,
            "engine": ENGINE,
            "level_claimed": {"category": c["cat"], "text": c["text"], "design_ref": c["ref"]},
            "level_note": c["note"],
            "technique": c["tech"],
        })
na = [{"property_id": p, "reason": NA_DEFAULT} for p in props if p not in CHECKS]
m = {
 "version": 1,
 "setup_cmd": "./check build",
 "hooks": {
   "guard": "verif",
   "enable": "go test -c -tags verif -overlay <generated by tools/overlaygen.py> (the overlay swaps sync, sync/atomic, math/rand/v2 imports of leader/*.go for shims; /repo is not modified)",
   "baseline_off_cmd": "cd /repo && GOFLAGS=-mod=mod go test -vet=off -count=1 -timeout 25m ./...",
   "source_commits": ["7db0c84"],
   "add_only": True,
 },
 "engines": [{"name": ENGINE, "path": "/verif/harness", "serves_properties": sorted(CHECKS), "kind_free_text": "hand-written stateless model checker: deviation-bounded DFS over named environment choices, real code executed in testing/synctest bubbles (virtual time, quiescence detection), gated reference KV store, worker subprocess pool"}],
 "checks": checks,
 "not_applicable": na,
 "notes": "All checks rebuild the harness from /repo's working tree on every invocation (./check). Known findings: /verif/known_findings.json.",
}
json.dump(m, open(os.path.join(V, "MANIFEST.json"), "w"), indent=1)
print("MANIFEST.json:", len(checks), "checks,", len(na), "not applicable")
