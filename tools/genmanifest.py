#!/usr/bin/env python3
"""Regenerates /verif/MANIFEST.json from the table below (kept in one place so that
the manifest is always valid)."""
import json, os
V = os.path.dirname(os.path.dirname(os.path.abspath(__file__)))
props = [json.loads(l)["id"] for l in open(os.path.join(V, "properties.jsonl"))]

ENGINE = "mcx"
EXPL = "stateless deviation-bounded exploration of the real election code in synctest bubbles (virtual time) against a gated reference store; oracle on the full observation trace of every execution"
NOTE = "Bounded: 2-4 instances, <=2 groups, deviation bound d per scenario as reported in the evidence (quick d=1..2, thorough d=2..3); reference store semantics validated against the embedded nats-server by C14; goroutine interleavings between two store/timer seams only in fine-mode windows."
CHECKS = {
 "C01": dict(cat="exploration", tech=EXPL, ref="DESIGN §5 C01", note=NOTE,
   text="Every applied mutation in the complete, caller-tagged store log of every explored execution (fault-free, crash, partition, error/lost-ack, preemption, two-group and stop/restart scenarios) is classified against the version it replaced: create over no live record, owner refresh with identical id/token, revision-checked takeover by a strictly higher-priority takeover-enabled instance, or owner's delete inside its own StopWithContext; anything else, or any op on another group's key, is a violation."),
 "C02": dict(cat="exploration", tech=EXPL, ref="DESIGN §5 C02", note=NOTE,
   text="Every execution with <= d deviations (store latencies up to H/2-1ms, split application/answer, watch delay/duplication, jitter extremes, start/stop/restart calls moved to every choice point) of the fault-free scenarios is run on the real code; at every leadership-flag change (sampled inside the is-leader gauge callback), callback and quiescent point: at most one claimant per group, and each claim is backed by the live record (id and current token)."),
 "C05": dict(cat="exploration", tech=EXPL, ref="DESIGN §5 C05", note=NOTE,
   text="Over every record version written in every explored execution (multi-term scenarios: health demotion and re-election, restart, failover, preemption, partitions): acquisition writes carry a token never seen before in any version; refreshes republish the replaced version's id and token; the token given to OnPromote is the token of an acquisition write of that instance; a leader's Token()/Status().Token equal the token in its own live record at every quiescent point."),
 "C07": dict(cat="exploration", tech=EXPL, ref="DESIGN §5 C07", note=NOTE,
   text="In every explored execution of the fault-free scenarios (latencies < H/2, watch delay/duplication/late delivery, all jitter extremes, other instances starting/stopping/losing) an instance that becomes leader has no true->false edge, no OnDemote and no token change until its own stop call, and the record never lapses or changes owner under it."),
 "C08": dict(cat="exploration", tech=EXPL, ref="DESIGN §5 C08", note=NOTE,
   text="Callback log of every explored execution (all scenario families incl. partitions, errors, lost acks, health demotion, preemption, stops): per instance strict P D P D ... alternation starting with P, P carries a token that instance wrote, and at every quiescent point outside a stop call IsLeader() <=> #P-#D==1."),
 "C09": dict(cat="exploration", tech=EXPL, ref="DESIGN §5 C09", note=NOTE,
   text="The stop call (Stop and five StopWithContext option combinations, plus stop-then-start) is placed by the explorer at every choice point of the base runs, including between issue/application/answer of each store op; after it returns nil: never leader again, no OnPromote, no store op issued, State STOPPED, duration within 5s+callback / the time-out, record not a live record of the caller when DeleteKey was set and it led, no stuck or leftover library goroutine, no panic (worker death), Status() never blocks."),
 "C18": dict(cat="exploration", tech=EXPL, ref="DESIGN §5 C18", note=NOTE,
   text="Status() of every instance at every quiescent point of every explored execution: IsLeader <=> State==LEADER, leader's LeaderID/Token/Revision equal own id / term token / revision of its latest acknowledged write, documented states only, STOPPED after a returned stop, is-leader gauge equals IsLeader(), transition stream forms a chain."),
 "C19": dict(cat="exploration", tech=EXPL, ref="DESIGN §5 C19", note=NOTE,
   text="A promotion callback that blocks on its context records when it is cancelled; at every quiescent point of every explored execution (every cause of term end the scenarios reach): context done <=> the term has ended (instance not leader or token changed)."),
}
NA_DEFAULT = "check not built yet in this round (planned in DESIGN.md §9a); not claimed until it runs alarm-free"

checks = []
for p in props:
    if p in CHECKS:
        c = CHECKS[p]
        checks.append({
            "property_id": p,
            "quick_cmd": "./check %s --tier quick" % p,
            "thorough_cmd": "./check %s --tier thorough" % p,
            "evidence_file": "/verif/evidence/%s.json" % p,
            "replay_cmd_template": "./check %s --replay {path}" % p,
            "engine": ENGINE,
            "level_claimed": {"category": c["cat"], "text": c["text"], "design_ref": c["ref"]},
            "level_note": c["note"],
            "technique": c["tech"],
        })
na = [{"property_id": p, "reason": NA_DEFAULT} for p in props if p not in CHECKS]
m = {
 "version": 1,
 "setup_cmd": "./check build",
 "hooks": {
   "guard": "verif",
   "enable": "go test -c -tags verif -overlay <generated by tools/overlaygen.py> (the overlay swaps sync, sync/atomic, math/rand/v2 imports of leader/*.go for shims; /repo is not modified)",
   "baseline_off_cmd": "cd /repo && GOFLAGS=-mod=mod go test -vet=off -count=1 -timeout 25m ./...",
   "source_commits": [],
   "add_only": True,
 },
 "engines": [{"name": ENGINE, "path": "/verif/harness", "serves_properties": sorted(CHECKS), "kind_free_text": "hand-written stateless model checker: deviation-bounded DFS over named environment choices, real code executed in testing/synctest bubbles (virtual time, quiescence detection), gated reference KV store, worker subprocess pool"}],
 "checks": checks,
 "not_applicable": na,
 "notes": "All checks rebuild the harness from /repo's working tree on every invocation (./check). Known findings: /verif/known_findings.json.",
}
json.dump(m, open(os.path.join(V, "MANIFEST.json"), "w"), indent=1)
print("MANIFEST.json:", len(checks), "checks,", len(na), "not applicable")
