// Package atomic replaces sync/atomic in /repo/leader under the verification
// overlay: identical semantics (it wraps the real types) plus a scheduling point
// before every operation for the fine-mode explorer.
package atomic

import (
	real "sync/atomic"

	"github.com/ali-assar/NATS-Leader-Election/verifshim/rt"
)

type Bool struct{ v real.Bool }

func (x *Bool) Load() bool { rt.Point("Bool.Load", x); return x.v.Load() }
func (x *Bool) Store(b bool) { rt.Point("Bool.Store", x); x.v.Store(b) }
func (x *Bool) Swap(b bool) bool { rt.Point("Bool.Swap", x); return x.v.Swap(b) }
func (x *Bool) CompareAndSwap(o, n bool) bool {
	rt.Point("Bool.CompareAndSwap", x)
	return x.v.CompareAndSwap(o, n)
}

type Value struct{ v real.Value }

func (x *Value) Load() any { rt.Point("Value.Load", x); return x.v.Load() }
func (x *Value) Store(val any) { rt.Point("Value.Store", x); x.v.Store(val) }
func (x *Value) Swap(n any) any { rt.Point("Value.Swap", x); return x.v.Swap(n) }
func (x *Value) CompareAndSwap(o, n any) bool {
	rt.Point("Value.CompareAndSwap", x)
	return x.v.CompareAndSwap(o, n)
}

type Int32 struct{ v real.Int32 }

func (x *Int32) Load() int32 { rt.Point("Int32.Load", x); return x.v.Load() }
func (x *Int32) Store(n int32) { rt.Point("Int32.Store", x); x.v.Store(n) }
func (x *Int32) Add(d int32) int32 { rt.Point("Int32.Add", x); return x.v.Add(d) }
func (x *Int32) Swap(n int32) int32 { rt.Point("Int32.Swap", x); return x.v.Swap(n) }
func (x *Int32) CompareAndSwap(o, n int32) bool {
	rt.Point("Int32.CompareAndSwap", x)
	return x.v.CompareAndSwap(o, n)
}

type Int64 struct{ v real.Int64 }

func (x *Int64) Load() int64 { rt.Point("Int64.Load", x); return x.v.Load() }
func (x *Int64) Store(n int64) { rt.Point("Int64.Store", x); x.v.Store(n) }
func (x *Int64) Add(d int64) int64 { rt.Point("Int64.Add", x); return x.v.Add(d) }
func (x *Int64) Swap(n int64) int64 { rt.Point("Int64.Swap", x); return x.v.Swap(n) }
func (x *Int64) CompareAndSwap(o, n int64) bool {
	rt.Point("Int64.CompareAndSwap", x)
	return x.v.CompareAndSwap(o, n)
}

type Uint32 struct{ v real.Uint32 }

func (x *Uint32) Load() uint32 { rt.Point("Uint32.Load", x); return x.v.Load() }
func (x *Uint32) Store(n uint32) { rt.Point("Uint32.Store", x); x.v.Store(n) }
func (x *Uint32) Add(d uint32) uint32 { rt.Point("Uint32.Add", x); return x.v.Add(d) }
func (x *Uint32) Swap(n uint32) uint32 { rt.Point("Uint32.Swap", x); return x.v.Swap(n) }
func (x *Uint32) CompareAndSwap(o, n uint32) bool {
	rt.Point("Uint32.CompareAndSwap", x)
	return x.v.CompareAndSwap(o, n)
}

type Uint64 struct{ v real.Uint64 }

func (x *Uint64) Load() uint64 { rt.Point("Uint64.Load", x); return x.v.Load() }
func (x *Uint64) Store(n uint64) { rt.Point("Uint64.Store", x); x.v.Store(n) }
func (x *Uint64) Add(d uint64) uint64 { rt.Point("Uint64.Add", x); return x.v.Add(d) }
func (x *Uint64) Swap(n uint64) uint64 { rt.Point("Uint64.Swap", x); return x.v.Swap(n) }
func (x *Uint64) CompareAndSwap(o, n uint64) bool {
	rt.Point("Uint64.CompareAndSwap", x)
	return x.v.CompareAndSwap(o, n)
}

type Pointer[T any] struct{ v real.Pointer[T] }

func (x *Pointer[T]) Load() *T { rt.Point("Pointer.Load", x); return x.v.Load() }
func (x *Pointer[T]) Store(p *T) { rt.Point("Pointer.Store", x); x.v.Store(p) }
func (x *Pointer[T]) Swap(p *T) *T { rt.Point("Pointer.Swap", x); return x.v.Swap(p) }
func (x *Pointer[T]) CompareAndSwap(o, n *T) bool {
	rt.Point("Pointer.CompareAndSwap", x)
	return x.v.CompareAndSwap(o, n)
}

// Function forms (not used by the library today; forwarded so that an edit that
// introduces them still builds under the overlay).
func AddInt32(addr *int32, delta int32) int32     { rt.Point("AddInt32", addr); return real.AddInt32(addr, delta) }
func AddInt64(addr *int64, delta int64) int64     { rt.Point("AddInt64", addr); return real.AddInt64(addr, delta) }
func AddUint32(addr *uint32, delta uint32) uint32 { rt.Point("AddUint32", addr); return real.AddUint32(addr, delta) }
func AddUint64(addr *uint64, delta uint64) uint64 { rt.Point("AddUint64", addr); return real.AddUint64(addr, delta) }
func LoadInt32(addr *int32) int32                 { rt.Point("LoadInt32", addr); return real.LoadInt32(addr) }
func LoadInt64(addr *int64) int64                 { rt.Point("LoadInt64", addr); return real.LoadInt64(addr) }
func LoadUint32(addr *uint32) uint32              { rt.Point("LoadUint32", addr); return real.LoadUint32(addr) }
func LoadUint64(addr *uint64) uint64              { rt.Point("LoadUint64", addr); return real.LoadUint64(addr) }
func StoreInt32(addr *int32, v int32)             { rt.Point("StoreInt32", addr); real.StoreInt32(addr, v) }
func StoreInt64(addr *int64, v int64)             { rt.Point("StoreInt64", addr); real.StoreInt64(addr, v) }
func StoreUint32(addr *uint32, v uint32)          { rt.Point("StoreUint32", addr); real.StoreUint32(addr, v) }
func StoreUint64(addr *uint64, v uint64)          { rt.Point("StoreUint64", addr); real.StoreUint64(addr, v) }
func CompareAndSwapInt32(addr *int32, o, n int32) bool {
	rt.Point("CompareAndSwapInt32", addr)
	return real.CompareAndSwapInt32(addr, o, n)
}
func CompareAndSwapInt64(addr *int64, o, n int64) bool {
	rt.Point("CompareAndSwapInt64", addr)
	return real.CompareAndSwapInt64(addr, o, n)
}
func CompareAndSwapUint32(addr *uint32, o, n uint32) bool {
	rt.Point("CompareAndSwapUint32", addr)
	return real.CompareAndSwapUint32(addr, o, n)
}
func CompareAndSwapUint64(addr *uint64, o, n uint64) bool {
	rt.Point("CompareAndSwapUint64", addr)
	return real.CompareAndSwapUint64(addr, o, n)
}
