// Package sync replaces package sync in /repo/leader under the verification overlay.
//
// Mutex, RWMutex and WaitGroup are re-implemented on channels so that a goroutine
// waiting for them is *durably blocked* in the sense of testing/synctest: a lock
// cycle then leaves the bubble quiescent (and is reported) instead of hanging the
// process in real time. RWMutex reproduces Go's policy: a waiting writer blocks
// new readers; on Unlock the readers that queued up behind the writer go first.
// Every operation is a scheduling point for the fine-mode explorer (rt.Point).
package sync

import (
	real "sync"

	"github.com/ali-assar/NATS-Leader-Election/verifshim/rt"
)

type (
	Once   = real.Once
	Map    = real.Map
	Pool   = real.Pool
	Cond   = real.Cond
	Locker = real.Locker
)

func NewCond(l Locker) *Cond { return real.NewCond(l) }

// ---------------------------------------------------------------- Mutex

type Mutex struct {
	g      real.Mutex
	locked bool
	wait   []chan struct{}
}

func (m *Mutex) Lock() {
	rt.Point("Mutex.Lock", m)
	m.g.Lock()
	if !m.locked {
		m.locked = true
		m.g.Unlock()
		return
	}
	ch := make(chan struct{})
	m.wait = append(m.wait, ch)
	m.g.Unlock()
	rt.Block("Mutex.Lock", m)
	<-ch
	rt.Unblock("Mutex.Lock", m)
}

func (m *Mutex) TryLock() bool {
	rt.Point("Mutex.TryLock", m)
	m.g.Lock()
	defer m.g.Unlock()
	if m.locked {
		return false
	}
	m.locked = true
	return true
}

func (m *Mutex) Unlock() {
	rt.Point("Mutex.Unlock", m)
	m.g.Lock()
	if !m.locked {
		m.g.Unlock()
		panic("sync: unlock of unlocked mutex")
	}
	if len(m.wait) > 0 {
		ch := m.wait[0]
		m.wait = m.wait[1:]
		m.g.Unlock()
		close(ch) // ownership handed over, locked stays true
		return
	}
	m.locked = false
	m.g.Unlock()
}

// ---------------------------------------------------------------- RWMutex

type RWMutex struct {
	g       real.Mutex
	readers int
	writer  bool
	waitW   []chan struct{}
	waitR   []chan struct{}
}

func (m *RWMutex) Lock() {
	rt.Point("RWMutex.Lock", m)
	m.g.Lock()
	if !m.writer && m.readers == 0 && len(m.waitW) == 0 {
		m.writer = true
		m.g.Unlock()
		return
	}
	ch := make(chan struct{})
	m.waitW = append(m.waitW, ch)
	m.g.Unlock()
	rt.Block("RWMutex.Lock", m)
	<-ch
	rt.Unblock("RWMutex.Lock", m)
}

func (m *RWMutex) TryLock() bool {
	rt.Point("RWMutex.TryLock", m)
	m.g.Lock()
	defer m.g.Unlock()
	if !m.writer && m.readers == 0 && len(m.waitW) == 0 {
		m.writer = true
		return true
	}
	return false
}

func (m *RWMutex) Unlock() {
	rt.Point("RWMutex.Unlock", m)
	m.g.Lock()
	if !m.writer {
		m.g.Unlock()
		panic("sync: Unlock of unlocked RWMutex")
	}
	m.writer = false
	if len(m.waitR) > 0 {
		rs := m.waitR
		m.waitR = nil
		m.readers += len(rs)
		m.g.Unlock()
		for _, ch := range rs {
			close(ch)
		}
		return
	}
	if len(m.waitW) > 0 {
		ch := m.waitW[0]
		m.waitW = m.waitW[1:]
		m.writer = true
		m.g.Unlock()
		close(ch)
		return
	}
	m.g.Unlock()
}

func (m *RWMutex) RLock() {
	rt.Point("RWMutex.RLock", m)
	m.g.Lock()
	if !m.writer && len(m.waitW) == 0 {
		m.readers++
		m.g.Unlock()
		return
	}
	ch := make(chan struct{})
	m.waitR = append(m.waitR, ch)
	m.g.Unlock()
	rt.Block("RWMutex.RLock", m)
	<-ch
	rt.Unblock("RWMutex.RLock", m)
}

func (m *RWMutex) TryRLock() bool {
	rt.Point("RWMutex.TryRLock", m)
	m.g.Lock()
	defer m.g.Unlock()
	if !m.writer && len(m.waitW) == 0 {
		m.readers++
		return true
	}
	return false
}

func (m *RWMutex) RUnlock() {
	rt.Point("RWMutex.RUnlock", m)
	m.g.Lock()
	if m.readers <= 0 {
		m.g.Unlock()
		panic("sync: RUnlock of unlocked RWMutex")
	}
	m.readers--
	if m.readers == 0 && len(m.waitW) > 0 {
		ch := m.waitW[0]
		m.waitW = m.waitW[1:]
		m.writer = true
		m.g.Unlock()
		close(ch)
		return
	}
	m.g.Unlock()
}

type rlocker RWMutex

func (r *rlocker) Lock()   { (*RWMutex)(r).RLock() }
func (r *rlocker) Unlock() { (*RWMutex)(r).RUnlock() }

func (m *RWMutex) RLocker() Locker { return (*rlocker)(m) }

// ---------------------------------------------------------------- WaitGroup

type WaitGroup struct {
	g    real.Mutex
	n    int
	wait []chan struct{}
}

func (wg *WaitGroup) Add(delta int) {
	rt.Point("WaitGroup.Add", wg)
	wg.g.Lock()
	wg.n += delta
	if wg.n < 0 {
		wg.g.Unlock()
		panic("sync: negative WaitGroup counter")
	}
	var ws []chan struct{}
	if wg.n == 0 {
		ws = wg.wait
		wg.wait = nil
	}
	wg.g.Unlock()
	for _, ch := range ws {
		close(ch)
	}
}

func (wg *WaitGroup) Done() { wg.Add(-1) }

func (wg *WaitGroup) Go(f func()) {
	wg.Add(1)
	go func() {
		defer wg.Done()
		f()
	}()
}

func (wg *WaitGroup) Wait() {
	rt.Point("WaitGroup.Wait", wg)
	wg.g.Lock()
	if wg.n == 0 {
		wg.g.Unlock()
		return
	}
	ch := make(chan struct{})
	wg.wait = append(wg.wait, ch)
	wg.g.Unlock()
	rt.Block("WaitGroup.Wait", wg)
	<-ch
	rt.Unblock("WaitGroup.Wait", wg)
}

// Count is a verification-only accessor (used by harness diagnostics).
func (wg *WaitGroup) Count() int {
	wg.g.Lock()
	defer wg.g.Unlock()
	return wg.n
}
