// Package rand replaces math/rand/v2 in /repo/leader under the verification overlay.
// Only Float64 is owned by the explorer; everything else forwards.
package rand

import (
	real "math/rand/v2"

	"github.com/ali-assar/NATS-Leader-Election/verifshim/rt"
)

func Float64() float64 { return rt.Float64() }

func IntN(n int) int           { return real.IntN(n) }
func Int() int                 { return real.Int() }
func Int64() int64             { return real.Int64() }
func Int64N(n int64) int64     { return real.Int64N(n) }
func Uint32() uint32           { return real.Uint32() }
func Uint64() uint64           { return real.Uint64() }
func Float32() float32         { return real.Float32() }
func Perm(n int) []int         { return real.Perm(n) }
func Shuffle(n int, f func(i, j int)) { real.Shuffle(n, f) }
func N[I interface {
	~int | ~int8 | ~int16 | ~int32 | ~int64 | ~uint | ~uint8 | ~uint16 | ~uint32 | ~uint64 | ~uintptr
}](n I) I {
	return real.N(n)
}
