// Package rt is the tiny runtime shared by the verification shims (sync, atomic,
// rand) that the build overlay swaps into /repo/leader, and by the harness, which
// installs the hooks. With no hook installed every shim behaves like the original
// package (locks are still channel based so that a blocked goroutine is durably
// blocked for testing/synctest).
package rt

import (
	"math/rand/v2"
	realsync "sync"
)

// PointFn, when non-nil, is called before every shimmed synchronisation operation
// (fine mode). kind names the operation ("Mutex.Lock", "Bool.Load", ...), obj is the
// address of the object operated on.
var PointFn func(kind string, obj any)

// FloatFn, when non-nil, supplies the value of rand.Float64().
var FloatFn func() float64

// BlockFn / UnblockFn, when non-nil, are told when a goroutine starts / stops
// waiting for a shim lock or wait group (used for waits-for reporting).
var BlockFn func(kind string, obj any)
var UnblockFn func(kind string, obj any)

var mu realsync.Mutex

func Point(kind string, obj any) {
	if f := PointFn; f != nil {
		f(kind, obj)
	}
}

func Float64() float64 {
	if f := FloatFn; f != nil {
		return f()
	}
	return rand.Float64()
}

func Block(kind string, obj any) {
	if f := BlockFn; f != nil {
		f(kind, obj)
	}
}

func Unblock(kind string, obj any) {
	if f := UnblockFn; f != nil {
		f(kind, obj)
	}
}
